"""B-str: bounded stand-in for property C12 (str / bytes literals round-trip).

Everything here calls the real code of /repo (editable install):
  inline_snapshot._code_repr.code_repr, inline_snapshot._utils.value_to_token / triple_quote,
  inline_snapshot._source_file.SourceFile._value_to_code / _token_to_code (-> _format -> _format.format_code -> black).

Checks per value v (str, and the bytes obtained by encoding it latin-1, utf-8 when that is impossible):
  (a)  ast.literal_eval(tokenize.untokenize(value_to_token(v))) == v          (no formatter)
       + shape: a literal that spans several lines is triple quoted, starts with an escaped line end and
         every line end that follows a blank is escaped
  (b)  ast.literal_eval(sf._value_to_code(v)) == v                            (black)
  (c)  same for [v], {"k": v}, (v,)                                           (black)
  (d)  (a)-(c) for the bytes value
  (e)  (b)+(c) with config.format_command = "cat" (restored afterwards), and the fragment piped through
       the real format_code(..) -> `cat`.

Known defect F1: a fragment that consists of one lone str literal is a docstring for black, which
strips / pads blanks at its edges.  Predicate used for the tag: see _classify_f1.
"""
from __future__ import annotations

import ast
import io
import itertools
import os
import random
import shutil
import tempfile
import time
import tokenize
import traceback

from bounded import standin

ALPHABET = ["\n", "\r", "\t", " ", '"', "'", "\\", "a", "\x00", "\x7f", "\xa0", "\xe9"]
# extra symbols only used by the random sample (line separators that str.splitlines knows, form feed,
# astral / combining code points, characters that are syntax inside containers or f-strings)
EXTRA = ["\u2028", "\x85", "\x0c", "\x1c", "\U0001f600", "\u0301", "\u20ac", "b", "{", "}", "#", ",", "\\n", "  ", "\n\n", '"""', "'''"]
HAND = [
    "", " a ", "a\n", "\n", "a\nb", "a\n\nb\n", '"""', "'''", "\"\"\"'''", " \n", "a \nb", "x\\", "\\\n", "a\r\nb",
    "\U0001f600", "\u0085", "\xa0", " ", "  ", "a'\"", "'\"", "a\\ ", " \\", '" ', "' ", "\u2028 ", " \x0c", "a\n ", " a\n",
    "\n\n", " \n\n", "\n \n", "a\n \nb", "a\n  b\n c", "\ta", "a\n\tb", "  a\nb", " \na\nb", "a\nb ", "a\nb\\", 'a\nb"', "a\nb'",
    "a\nb\"\"\"", "a\n'''b\"\"\"", "a\n'''b\"", "a\n\"\"\"b'", "\n'''\"\"\"", "\n\"\"\"\"'''", "\r", "\r\n", "a\rb\nc", "\x00", "\\N{BULLET}", "{x}", "\ud7ff", "\ue000", "\U0010ffff",
    "a" * 100 + "\n" + "b" * 100, " " * 90, "\\" * 7, "a\\\nb",
    # multi-line text with a common indentation, starting and/or ending with a line break (docstring-like layouts)
    "\n  select *\n    from t\n  where x\n", "\n    a\n    b\n", "  a\n  b\n", "\n  a\n  b", "\n\ta\n\tb\n", "\n  a\n\n  b\n",
]
KINDS = ("top", "list", "dict", "tuple")
CAP_KNOWN = 5
CAP_NEW = 20

_STATE: dict = {}


# ---------------------------------------------------------------------------------------------- real code access
def _sf():
    """SourceFile over an executing.Source of a scratch file (one per process)."""
    sf = _STATE.get("sf")
    if sf is None:
        from executing import Source
        from inline_snapshot._source_file import SourceFile

        d = _STATE["dir"]
        p = os.path.join(d, f"snap_{os.getpid()}.py")
        with open(p, "w") as f:
            f.write("from inline_snapshot import snapshot\n\nassert 1 == snapshot()\n")
        sf = _STATE["sf"] = SourceFile(Source.for_filename(p))
        _STATE["path"] = p
    return sf


def _wrap(kind, v):
    if kind == "top":
        return v
    if kind == "list":
        return [v]
    if kind == "dict":
        return {"k": v}
    return (v,)


def _same(r, w):
    return type(r) is type(w) and r == w


def _pairs(text):
    return [(t.type, t.string) for t in tokenize.generate_tokens(io.StringIO(text).readline)
            if t.type not in (tokenize.NEWLINE, tokenize.NL, tokenize.ENDMARKER)]


# ---------------------------------------------------------------------------------------------- F1 predicate
def _classify_f1(mode, v, code):
    """-> (finding, subclass).  F1 iff ALL of
    1. the case is the top-level one through black (mode 'b:top/black') and type(v) is str;
    2. the text before formatting (tokenize.untokenize(value_to_token(v))) evaluates to v;
    3. the formatted fragment is exactly one expression statement holding a str constant r != v;
    4. r and v differ only by docstring normalisation:
         r.strip(' ') == v.strip(' ')                                   (blanks at the two ends stripped / padded), or
         same number of lines and every line equal after strip(' \\t')   (indentation / line-end blanks changed).
    """
    if mode != "b:top/black" or type(v) is not str or not isinstance(code, str):
        return None, None
    try:
        from inline_snapshot._utils import value_to_token

        if not _same(ast.literal_eval(tokenize.untokenize(value_to_token(v))), v):
            return None, None
        body = ast.parse(code).body
        if len(body) != 1 or not isinstance(body[0], ast.Expr) or not isinstance(body[0].value, ast.Constant):
            return None, None
        r = body[0].value.value
    except Exception:
        return None, None
    if type(r) is not str or r == v:
        return None, None
    if r.strip(" ") == v.strip(" "):
        return "F1", ("edge-blanks-stripped" if len(r) < len(v) else "edge-blank-padded")
    rl, vl = r.split("\n"), v.split("\n")
    if len(vl) > 1 and len(rl) == len(vl) and all(a.strip(" \t") == b.strip(" \t") for a, b in zip(rl, vl)):
        return "F1", "line-indentation-changed"
    return None, None


def _hint(base, detail):
    """Explanatory note (NOT a finding id) for the defect this stand-in found on the unchanged tree:
    _utils._str_literal_helper escapes the final quote a second time when the string contains both triple
    quotes (so every quote of the chosen kind is already escaped) and ends with that quote kind."""
    if type(base) is str and "AssertionError" in detail and "'''" in base and '"""' in base:
        multi = ("\n" in base and base[-1] != "\n") or base.count("\n") > 1
        extra = '"' if base.count("'") >= base.count('"') else "'"
        if multi and base[-1] == extra:
            return ("\nnote: matches the pattern 'multi-line str containing both \'\'\' and \"\"\" whose last character is the quote kind "
                    "that _str_literal_helper escapes': the already escaped final quote gets a second backslash, the assert in value_to_token fails")
    return ""


# ---------------------------------------------------------------------------------------------- replay scripts
_REPLAY_HEAD = '''\
# run with: /verif/.venv/bin/python <this file>      (inline_snapshot is the editable install of /repo)
import ast, os, tempfile, tokenize
from pathlib import Path
from executing import Source
from inline_snapshot import _config
from inline_snapshot._format import format_code
from inline_snapshot._source_file import SourceFile
from inline_snapshot._utils import value_to_token

value = {value}
d = tempfile.mkdtemp()
p = os.path.join(d, "snap.py")
open(p, "w").write("from inline_snapshot import snapshot\\n\\nassert 1 == snapshot()\\n")
sf = SourceFile(Source.for_filename(p))
'''
_REPLAY_BODY = {
    "a": "code = tokenize.untokenize(value_to_token(value))\n",
    "black": "code = sf._value_to_code(value)\n",
    "cat": "_config.config.format_command = 'cat'\ncode = sf._value_to_code(value)\n",
    "catpipe": "_config.config.format_command = 'cat'\ncode = format_code(sf._value_to_code(value), Path(p)).strip()\n",
}
_REPLAY_TAIL = '''\
print("value:", ascii(value))
print("code :", ascii(code))
result = ast.literal_eval(code)
print("evals:", ascii(result))
assert type(result) is type(value) and result == value, "generated literal does not evaluate back to the value"
'''
_REPLAY_SHAPE = '''\
lit = code
assert "\\n" not in lit or (lit[:3] in ('"""', "\'\'\'") and lit[3:5] == "\\\\\\n" and lit[-3:] == lit[:3]), "multi-line literal is not triple quoted with escaped line ends"
'''


def _replay(mode, w):
    fmt = mode.split("/")[1] if "/" in mode else "a"
    code = _REPLAY_HEAD.format(value=ascii(w)) + _REPLAY_BODY[fmt if fmt in _REPLAY_BODY else "a"]
    if mode.startswith("a-shape"):
        return code + 'print("code :", ascii(code))\n' + _REPLAY_SHAPE
    return code + _REPLAY_TAIL


def _classify_f19(w, detail):
    """F19: value_to_token's own `assert ast.literal_eval(triple_quoted_string) == s` fails for a str that takes the
    triple-quote path, contains both quote triples and ends with the quote kind chosen for escaping."""
    base = w if isinstance(w, (str, bytes)) else (w["k"] if isinstance(w, dict) else w[0])
    if not isinstance(base, str) or "AssertionError" not in detail or "value_to_token" not in detail and "map_string" not in detail:
        return None, None
    s = base
    if not (("\n" in s and s[-1] != "\n") or s.count("\n") > 1):
        return None, None
    if not ("'''" in s and '"""' in s):
        return None, None
    extra = '"' if s.count("'") >= s.count('"') else "'"
    if s[-1] != extra:
        return None, None
    return "F19", "final quote escaped twice"


# ---------------------------------------------------------------------------------------------- result accumulator
class _Acc:
    def __init__(self):
        self.evaluated = 0
        self.counts = {}  # finding -> hits
        self.sub = {}  # (finding, subclass) -> hits
        self.fails = {}  # finding -> records (capped)
        self.per_mode = {}  # mode -> cases run
        self.xc = {}  # cross-check -> [ok, broken]

    def ran(self, mode):
        self.evaluated += 1
        self.per_mode[mode] = self.per_mode.get(mode, 0) + 1

    def x(self, name, ok):
        c = self.xc.setdefault(name, [0, 0])
        c[0 if ok else 1] += 1

    def fail(self, mode, w, detail, code=None):
        finding, sub = _classify_f1(mode, w, code)
        if finding is None:
            finding, sub = _classify_f19(w, detail)
        self.counts[finding] = self.counts.get(finding, 0) + 1
        if sub:
            self.sub[(finding, sub)] = self.sub.get((finding, sub), 0) + 1
        # failures of one base value with the same symptom (e.g. the same exception in all 13 modes) are one entry
        base = w if isinstance(w, (str, bytes)) else (w["k"] if isinstance(w, dict) else w[0])
        symptom = detail.rstrip().splitlines()[-1] if "Traceback" in detail else "wrong value"
        root = f"{type(base).__name__}:{ascii(base)}|{symptom}"
        roots = self.fails.setdefault(finding, {})
        if root in roots:
            roots[root]["_modes"].append(mode)
        elif len(roots) < (CAP_KNOWN if finding else CAP_NEW):
            if sub:
                detail = f"[{sub}] " + detail
            if finding is None:
                detail += _hint(base, detail)
            roots[root] = dict(finding=finding, input=f"{mode}: {ascii(w)}", detail=detail, replay_code=_replay(mode, w), _sub=sub, _modes=[mode])

    def dump(self):
        return dict(evaluated=self.evaluated, counts=self.counts, sub=self.sub, fails=self.fails, per_mode=self.per_mode, xc=self.xc)


def _merge(total, part):
    total["evaluated"] += part["evaluated"]
    for k, n in part["counts"].items():
        total["counts"][k] = total["counts"].get(k, 0) + n
    for k, n in part["sub"].items():
        total["sub"][k] = total["sub"].get(k, 0) + n
    for k, n in part["per_mode"].items():
        total["per_mode"][k] = total["per_mode"].get(k, 0) + n
    for k, (a, b) in part["xc"].items():
        c = total["xc"].setdefault(k, [0, 0])
        c[0] += a
        c[1] += b
    for k, roots in part["fails"].items():
        tr = total["fails"].setdefault(k, {})
        for root, rec in roots.items():
            if root in tr:
                tr[root]["_modes"].extend(rec["_modes"])
            else:
                tr[root] = rec


# ---------------------------------------------------------------------------------------------- the checks
def _shape_ok(text):
    """C12: single-line, or triple quoted with escaped line ends."""
    if "\n" not in text:
        return True
    return text[:3] in ('"""', "'''") and text[3:5] == "\\\n" and text[-3:] == text[:3]


def _check_a(acc, w, shape=True, cross=True):
    from inline_snapshot._code_repr import code_repr
    from inline_snapshot._utils import triple_quote, value_to_token

    mode = "a:%s/none" % ("top" if isinstance(w, (str, bytes)) else type(w).__name__)
    acc.ran(mode)
    text = None
    try:
        toks = value_to_token(w)
        text = tokenize.untokenize(toks)
        r = ast.literal_eval(text)
        if not _same(r, w):
            acc.fail(mode, w, f"untokenize(value_to_token(v)) = {ascii(text)} evaluates to {ascii(r)}", text)
    except Exception:
        acc.fail(mode, w, f"text={ascii(text)}\n" + traceback.format_exc(), text)
        return
    if cross:
        try:
            acc.x("X1 repr(str/bytes) round trip", _same(ast.literal_eval(code_repr(w)), w))
        except Exception:
            acc.x("X1 repr(str/bytes) round trip", False)
        try:
            acc.x("X10 tokenize/untokenize", _pairs(text) == [(t.type, t.string) for t in toks])
        except Exception:
            acc.x("X10 tokenize/untokenize", False)
    if shape and type(w) is str:
        acc.ran("a-shape:top/none")
        try:
            multi = ("\n" in w and w[-1] != "\n") or w.count("\n") > 1
            if not _shape_ok(text):
                acc.fail("a-shape:top/none", w, f"literal spans several lines but is not triple quoted with escaped line ends: {ascii(text)}", text)
            elif multi:
                t3 = triple_quote(w)
                if not _same(ast.literal_eval(t3), w) or not _shape_ok(t3):
                    acc.fail("a-shape:top/none", w, f"triple_quote(v) = {ascii(t3)} does not evaluate to v / is not triple quoted with escaped line ends", text)
        except Exception:
            acc.fail("a-shape:top/none", w, traceback.format_exc(), text)


def _check_fmt(acc, v, fmt):
    """fmt: 'black' (format_command None) or 'cat'."""
    from inline_snapshot import _config
    from inline_snapshot._utils import value_to_token

    sf = _sf()
    saved = _config.config.format_command
    _config.config.format_command = None if fmt == "black" else "cat"
    try:
        for kind in KINDS:
            w = _wrap(kind, v)
            mode = f"b:{kind}/{fmt}"
            acc.ran(mode)
            code = None
            try:
                code = sf._value_to_code(w)
                r = ast.literal_eval(code)
                if not _same(r, w):
                    acc.fail(mode, w, f"_value_to_code(v) = {ascii(code)} evaluates to {ascii(r)}", code)
            except Exception:
                acc.fail(mode, w, f"code={ascii(code)}\n" + traceback.format_exc(), code)
            if fmt == "black" and code is not None:
                try:
                    before = tokenize.untokenize(value_to_token(w))
                    acc.x("X2 black keeps AST", ast.dump(ast.parse(before)) == ast.dump(ast.parse(code)))
                except Exception:
                    acc.x("X2 black keeps AST", False)
        if fmt == "cat":
            from pathlib import Path

            from inline_snapshot._format import format_code

            mode = "b:top/catpipe"
            acc.ran(mode)
            code = None
            try:
                code = format_code(sf._value_to_code(v), Path(_STATE["path"])).strip()
                r = ast.literal_eval(code)
                if not _same(r, v):
                    acc.fail(mode, v, f"format_code(_value_to_code(v)) through `cat` = {ascii(code)} evaluates to {ascii(r)}", code)
            except Exception:
                acc.fail(mode, v, f"code={ascii(code)}\n" + traceback.format_exc(), code)
    finally:
        _config.config.format_command = saved


def _to_bytes(s):
    try:
        return s.encode("latin-1")
    except UnicodeEncodeError:
        return s.encode("utf-8")


# ---------------------------------------------------------------------------------------------- worker tasks
def _task(args):
    """Runs in a worker process (or inline).  Never raises."""
    acc = _Acc()
    try:
        kind, tmpdir = args[0], args[1]
        _STATE.setdefault("dir", tmpdir)
        if kind == "enum":  # all strings of one length over ALPHABET, slice [lo, hi) of the product, check (a)
            _, _, length, lo, hi, with_bytes = args
            for tup in itertools.islice(itertools.product(ALPHABET, repeat=length), lo, hi):
                s = "".join(tup)
                _check_a(acc, s)
                if with_bytes:
                    _check_a(acc, s.encode("latin-1"), shape=False)
        elif kind == "cp":  # single code points, check (a)
            _, _, lo, hi = args
            skip = set(ALPHABET)
            for cp in range(lo, hi):
                if 0xD800 <= cp <= 0xDFFF:
                    continue
                s = chr(cp)
                if s in skip:
                    continue
                _check_a(acc, s)
                if cp < 256:
                    _check_a(acc, bytes([cp]), shape=False)
        elif kind == "slow":  # checks (a) nested, (b)-(e)
            _, _, strings = args
            for s in strings:
                for v in (s, _to_bytes(s)):
                    for k in KINDS:
                        _check_a(acc, _wrap(k, v), shape=(k == "top"))
                    _check_fmt(acc, v, "black")
                    _check_fmt(acc, v, "cat")
    except Exception:
        acc.counts[None] = acc.counts.get(None, 0) + 1
        acc.fails.setdefault(None, {})["task-crash:" + ascii(args[2:])[:80]] = (dict(finding=None, input=f"task {args[0]} {ascii(args[2:])[:120]}", detail="harness task crashed:\n" + traceback.format_exc(),
                                                  replay_code="raise AssertionError('B-str worker task crashed; see detail in the header')", _sub=None, _modes=["task"]))
    return acc.dump()


def _random_strings(seed, n):
    rng = random.Random(seed)
    symbols = ALPHABET * 3 + EXTRA
    out = []
    for _ in range(n):
        pool = rng.sample(symbols, rng.randint(1, 5))  # few symbols per string: runs like ''' or \\\\ become likely
        out.append("".join(rng.choice(pool) for _ in range(rng.randint(1, 12)))[:12])
    return out


def _plan(tier, seed, tmpdir):
    thorough = tier == "thorough"
    n_random = 20000 if thorough else 400
    slow_vals = list(dict.fromkeys(HAND + _random_strings(seed, n_random)))
    tasks = []
    chunk = 60 if thorough else 24
    for i in range(0, len(slow_vals), chunk):
        tasks.append(("slow", tmpdir, slow_vals[i:i + chunk]))
    max_len = 5 if thorough else 3
    n_enum = 0
    for length in range(0, max_len + 1):
        total = len(ALPHABET) ** length
        step = 12 ** 4 if thorough else 12 ** 2 * 4
        for lo in range(0, total, step):
            tasks.append(("enum", tmpdir, length, lo, min(total, lo + step), length <= 3))
        n_enum += total
    n_cp = 0
    if thorough:
        for lo in range(0, 0x110000, 0x4000):
            tasks.append(("cp", tmpdir, lo, lo + 0x4000))
        n_cp = 0x110000 - 0x800 - len(ALPHABET)
    return tasks, slow_vals, n_enum, n_cp


def _run_tasks(tasks, budget, workers=6):
    t0 = time.time()
    total = _Acc().dump()
    skipped = 0
    pool = None
    try:
        import multiprocessing as mp

        pool = mp.get_context("fork").Pool(workers)
    except Exception:
        pool = None
    if pool is None:
        for t in tasks:
            if time.time() - t0 > budget:
                skipped += 1
                continue
            _merge(total, _task(t))
        return total, skipped
    try:
        pending = [pool.apply_async(_task, (t,)) for t in tasks]
        for p in pending:
            left = budget - (time.time() - t0)
            try:
                _merge(total, p.get(timeout=max(0.05, left)))
            except Exception:  # timeout (budget used up) or a dead worker
                skipped += 1
    finally:
        pool.terminate()
        pool.join()
    return total, skipped


@standin("B-str", props=["C12", "C16"],
         bound="str/bytes over a 12-symbol adversarial alphabet: all strings of length <= 3 (quick) / <= 5 (thorough) unformatted; "
               "hand-picked + 400 (quick) / 20 000 (thorough) seeded random strings of length <= 12 top-level and inside list/dict/tuple "
               "through black and format_command=cat; thorough adds every non-surrogate code point as a 1-char string")
def run(tier, seed):
    t0 = time.time()
    tmpdir = None
    try:
        tmpdir = tempfile.mkdtemp(prefix="bstr_")
        _STATE["dir"] = tmpdir
        _STATE.pop("sf", None)
        tasks, slow_vals, n_enum, n_cp = _plan(tier, seed, tmpdir)
        total, skipped = _run_tasks(tasks, budget=(1800 if tier == "thorough" else 600))  # wall-clock safety net only: the task list is fixed, a loaded machine must not shrink it

        failures = []
        for finding, roots in sorted(total["fails"].items(), key=lambda kv: (kv[0] is None, str(kv[0]))):
            lst = sorted(roots.values(), key=lambda f: (len(f["input"]), f["input"]))
            hits = total["counts"].get(finding, len(lst))
            keep, seen_sub = [], set()
            for f in lst:  # one representative per subclass first, then the shortest inputs
                if f.get("_sub") not in seen_sub:
                    seen_sub.add(f.get("_sub"))
                    keep.append(f)
            keep += [f for f in lst if f not in keep]
            keep = keep[: (CAP_KNOWN if finding else CAP_NEW)]
            if keep:
                if finding:
                    subs = ", ".join(f"{s}={n}" for (fd, s), n in sorted(total["sub"].items()) if fd == finding)
                    denom = total["per_mode"].get("b:top/black", 0)
                    keep[0]["detail"] = (f"{finding}: {hits} hits in this run ({subs}); top-level cases through black run: {denom} (str and bytes); "
                                         f"{len(keep)} representatives listed. ") + keep[0]["detail"]
                else:
                    keep[0]["detail"] = f"{hits} failing cases without a known finding in this run, {len(lst)} distinct (value, symptom) groups, {len(keep)} listed. " + keep[0]["detail"]
            for f in keep:
                f.pop("_sub", None)
                modes = f.pop("_modes", [])
                if len(modes) > 1:
                    f["detail"] += f"\nsame value, same symptom in {len(modes)} checks: " + ", ".join(sorted(set(modes)))
                failures.append(f)

        # distinct = number of distinct (check, non-empty value) pairs
        max_len = 5 if tier == "thorough" else 3
        alpha = set(ALPHABET)
        slow_str = [s for s in slow_vals if s]
        slow_bytes = {_to_bytes(s) for s in slow_str}
        per_str = len(KINDS) * 3 + 2  # (a) x4 + shape, black x4, cat x4, cat pipe
        per_bytes = len(KINDS) * 3 + 1
        distinct = len(slow_str) * per_str + len(slow_bytes) * per_bytes
        distinct += (n_enum - 1) * 2 + sum(len(ALPHABET) ** k for k in range(1, 4))  # enumeration: (a)+shape per str, (a) per bytes up to length 3
        distinct -= sum(2 for s in slow_str if len(s) <= max_len and set(s) <= alpha)  # top-level (a)/shape cases that the enumeration repeats
        distinct -= sum(1 for b in slow_bytes if len(b) <= 3 and set(b.decode("latin-1")) <= alpha)
        if n_cp:
            distinct += n_cp * 2 + (256 - len(ALPHABET))
            distinct -= sum(2 for s in slow_str if len(s) == 1 and s not in alpha)
            distinct -= sum(1 for b in slow_bytes if len(b) == 1 and chr(b[0]) not in alpha)
        res = dict(
            evaluated=total["evaluated"], distinct=distinct, failures=failures,
            samples=[ascii(s) for s in (slow_vals[1], slow_vals[4], slow_vals[8], slow_vals[len(HAND)], slow_vals[-1])],
            cross_checks=[f"{k} ({ok} ok / {bad} broken{' = the F1 docstring cases' if k.startswith('X2') and bad else ''})" for k, (ok, bad) in sorted(total["xc"].items())],
            per_mode=total["per_mode"], finding_counts={str(k): v for k, v in total["counts"].items()}, seconds=round(time.time() - t0, 1),
        )
        if skipped:
            res["truncated_tasks"] = skipped
            # not a property violation: the run is incomplete (checker fault, exit 3), never a VIOLATION line
            res["error"] = f"{skipped} of {len(tasks)} tasks did not finish inside the safety-net time budget (or a worker died); the stated bound was not covered"
        return res
    except Exception:
        return dict(evaluated=0, distinct=0, samples=[], cross_checks=[], failures=[], error="B-str harness crashed: " + traceback.format_exc()[-1200:])
    finally:
        if tmpdir:
            shutil.rmtree(tmpdir, ignore_errors=True)
