"""Replay file written by /verif/check.py
{
 "property": "C08",
 "standin": "B-fixpoint",
 "bound": "real pytest sessions: rerun after all four categories / after the same subset (template project + fixed zoo of ~45 builtin values; thorough adds 3 x 30 random nested values and all 15 subsets); approval orders: quick 2 category triples x 6 orders, thorough all 24 orders of 4 (+ all sub-orders) on 3 templates, plus trailing-comma layouts",
 "input": {
  "project": "zoo hash-seed sensitive values",
  "values": 10,
  "flags": "create,fix,trim,update",
  "rerun": 1
 },
 "detail": "C08: rerun #1 with the same flags modified files: ['M test_zoo_hash.py']\n--- before\n+++ after\n@@ -13 +13 @@\n-    assert {frozenset({'a'}), frozenset({'b'}), frozenset({'c'})} == snapshot({frozenset({\"a\"}), frozenset({\"c\"}), frozenset({\"b\"})})\n+    assert {frozenset({'a'}), frozenset({'b'}), frozenset({'c'})} == snapshot({frozenset({\"c\"}), frozenset({\"a\"}), frozenset({\"b\"})})\n@@ -17 +17 @@\n-    assert {frozenset({'a', 'b'}), frozenset({'c'}), frozenset()} == snapshot({frozenset(), frozenset({\"c\"}), frozenset({\"a\", \"b\"})})\n+    assert {frozenset({'a', 'b'}), frozenset({'c'}), frozenset()} == snapshot({frozenset(), frozenset({\"a\", \"b\"}), frozenset({\"c\"})})\n\nrerun #1: report still shows ['Update snapshots']\n--- output (tail)\n==================================== PASSES ====================================\n------------ generated xml file: /tmp/bsess-out-h24k7kpb/junit.xml -------------\n=========================== short test summary info ============================\nPASSED test_zoo_hash.py::test_v0\nPASSED test_zoo_hash.py::test_v1\nPASSED test_zoo_hash.py::test_v2\nPASSED test_zoo_hash.py::test_v3\nPASSED test_zoo_hash.py::test_v4\nPASSED test_zoo_hash.py::test_v5\nPASSED test_zoo_hash.py::test_v6\nPASSED test_zoo_hash.py::test_v7\nPASSED test_zoo_hash.py::test_v8\nPASSED test_zoo_hash.py::test_v9\nPASSED test_zoo_hash.py::test_ops\n============================== 11 passed in 1.40s =============================="
}
"""


# stand-alone replay: runs real pytest sessions of the plugin installed for this interpreter
# (run with /verif/.venv/bin/python, which sees the editable install of /repo).
import ast, os, shutil, subprocess, sys, tempfile
import xml.etree.ElementTree as ET
from pathlib import Path

CI_VARS = ('CI', 'bamboo.buildKey', 'BUILD_ID', 'BUILD_NUMBER', 'BUILDKITE', 'CIRCLECI', 'CONTINUOUS_INTEGRATION', 'GITHUB_ACTIONS', 'HUDSON_URL', 'JENKINS_URL', 'TEAMCITY_VERSION', 'TRAVIS', 'PYCHARM_HOSTED')
OTHER = ('INLINE_SNAPSHOT_DEFAULT_FLAGS', 'FORCE_COLOR', 'NO_COLOR', 'PYTEST_ADDOPTS', 'PYTEST_PLUGINS', 'PYTHONHASHSEED')
BASE_ARGS = ('-p', 'no:cacheprovider', '-p', 'no:benchmark', '-rA')


def _env(extra, tty):
    env = dict(os.environ)
    for v in CI_VARS + OTHER:
        env.pop(v, None)
    env.update(TERM="unknown", COLUMNS="80", PYTHONDONTWRITEBYTECODE="1")
    if tty:
        env["FORCE_COLOR"] = "true"
    env.update(extra or {})
    return env


def tree(root):
    return {p.relative_to(root).as_posix(): p.read_bytes() for p in sorted(Path(root).rglob("*"))
            if p.is_file() and "__pycache__" not in p.parts}


def write(root, files):
    for n, c in files.items():
        p = Path(root) / n
        p.parent.mkdir(parents=True, exist_ok=True)
        p.write_bytes(c if isinstance(c, bytes) else c.encode())


def outcomes(path):
    out = {}
    try:
        r = ET.parse(path).getroot()
    except Exception:
        return None
    for tc in r.iter("testcase"):
        k = out.setdefault(tc.get("classname") + "::" + tc.get("name"), set())
        kinds = {"failed" if c.tag == "failure" else c.tag for c in tc if c.tag in ("failure", "error", "skipped")}
        k.update(kinds or {"passed"})
    return out


def session(proj, args=(), env=None, stdin=b"", tty=None):
    out = tempfile.mkdtemp()
    try:
        before = tree(proj)
        p = subprocess.run([sys.executable, "-m", "pytest", *BASE_ARGS, "--junitxml=" + out + "/j.xml", *args],
                           cwd=proj, env=_env(env, bool(stdin) if tty is None else tty), input=stdin,
                           capture_output=True)
        return dict(rc=p.returncode, out=p.stdout.decode("utf-8", "replace"), err=p.stderr.decode("utf-8", "replace"),
                    outcomes=outcomes(out + "/j.xml"), before=before, after=tree(proj))
    finally:
        shutil.rmtree(out, ignore_errors=True)


def dump(src):
    return ast.dump(ast.parse(src.decode() if isinstance(src, bytes) else src))


ROOT = tempfile.mkdtemp()
PROJ = os.path.join(ROOT, "proj")
os.mkdir(PROJ)
try:
    write(PROJ, {'test_zoo_hash.py': "from inline_snapshot import snapshot\n\n\ndef test_v0():\n    assert {'b', 'a', 'c', 'd', 'e'} == snapshot()\n\n\ndef test_v1():\n    assert frozenset({'x', 'y', 'z'}) == snapshot()\n\n\ndef test_v2():\n    assert {frozenset({'a'}), frozenset({'b'}), frozenset({'c'})} == snapshot()\n\n\ndef test_v3():\n    assert {frozenset({'a', 'b'}), frozenset({'c'}), frozenset()} == snapshot()\n\n\ndef test_v4():\n    assert ({'p', 'q', 'r'},) == snapshot()\n\n\ndef test_v5():\n    assert [{'p', 'q', 'r'}, ({'s', 't', 'u'},)] == snapshot()\n\n\ndef test_v6():\n    assert {'k': {'v1', 'v2', 'v3'}} == snapshot()\n\n\ndef test_v7():\n    assert {('a', 'b'), ('c',), ('d', 'e')} == snapshot()\n\n\ndef test_v8():\n    assert (frozenset({'m', 'n', 'o'}),) == snapshot()\n\n\ndef test_v9():\n    assert {'only'} == snapshot()\n\n\ndef test_ops():\n    assert 5 <= snapshot()\n    assert 5 >= snapshot()\n    assert 5 in snapshot()\n    s = snapshot()\n    assert 'v' == s['k']\n    assert [1] == s['l']\n", 'pyproject.toml': '[tool.inline-snapshot]\n'})
    r = session(PROJ, ['--inline-snapshot=create,fix,trim,update'], env={'PYTHONHASHSEED': '1'})
    r = session(PROJ, ['--inline-snapshot=create,fix,trim,update'], env={'PYTHONHASHSEED': '2'})
    print(r['out'][-2500:])
    assert r['after'] == r['before'], sorted(k for k in set(r['after']) | set(r['before']) if r['after'].get(k) != r['before'].get(k))
    assert r['rc'] == 0, r['rc']
    assert not [h for h in ('Create snapshots', 'Fix snapshots', 'Trim snapshots', 'Update snapshots') if h in r['out']], 'pending changes reported'
finally:
    shutil.rmtree(ROOT, ignore_errors=True)
print("replay: no violation observed")

