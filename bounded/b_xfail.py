"""B-xfail (C06, C04): tests marked xfail -- on the function, on the class or through a module-level pytestmark -- run with
inline-snapshot disabled: snapshot(v) is v, outcomes equal those of --inline-snapshot=disable, files stay byte-identical.
Bound: 3 marker placements x 3 flag sets, real pytest subprocess sessions."""
from __future__ import annotations

import os
import re
import shutil
import subprocess
import sys
import tempfile
from pathlib import Path

from bounded import standin

MODS = {
    "test_fn.py": "import pytest\nfrom inline_snapshot import snapshot\n\n@pytest.mark.xfail\ndef test_a():\n    assert 5 == snapshot(4)\n\n@pytest.mark.xfail\ndef test_b():\n    assert 5 == snapshot()\n",
    "test_cls.py": "import pytest\nfrom inline_snapshot import snapshot\n\n@pytest.mark.xfail\nclass TestX:\n    def test_a(self):\n        assert 5 == snapshot(4)\n\n    def test_b(self):\n        assert 5 <= snapshot(3)\n",
    "test_mod.py": "import pytest\nfrom inline_snapshot import snapshot\n\npytestmark = pytest.mark.xfail\n\ndef test_a():\n    assert 5 == snapshot(4)\n\ndef test_b():\n    assert 5 in snapshot([3])\n",
}
CI_VARS = ("CI", "bamboo.buildKey", "BUILD_ID", "BUILD_NUMBER", "BUILDKITE", "CIRCLECI", "CONTINUOUS_INTEGRATION", "GITHUB_ACTIONS", "HUDSON_URL",
           "JENKINS_URL", "TEAMCITY_VERSION", "TRAVIS", "PYCHARM_HOSTED", "INLINE_SNAPSHOT_DEFAULT_FLAGS")


def session(d, flags):
    env = {k: v for k, v in os.environ.items() if k not in CI_VARS}
    env.update(TERM="unknown", COLUMNS="80")
    p = subprocess.run([sys.executable, "-m", "pytest", "-p", "no:cacheprovider", "-q", "-rA", f"--inline-snapshot={flags}"], cwd=d, env=env,
                       capture_output=True, text=True, timeout=600)
    m = re.findall(r"^(XFAIL|XPASS|PASSED|FAILED|ERROR) (\S+)", p.stdout, re.M)
    return p.returncode, sorted(m), p.stdout[-1500:]


REPLAY = '''import os, subprocess, sys, tempfile
from pathlib import Path
d = Path(tempfile.mkdtemp())
files = {files!r}
for k, v in files.items():
    (d / k).write_text(v)
env = {{k: v for k, v in os.environ.items() if k not in {ci!r}}}
p = subprocess.run([sys.executable, "-m", "pytest", "-p", "no:cacheprovider", "-q", "-rA", "--inline-snapshot={flags}"], cwd=d, env=env, capture_output=True, text=True)
print(p.stdout[-1500:])
for k, v in files.items():
    assert (d / k).read_text() == v, k + " was modified although every test in it is marked xfail"
'''


@standin("B-xfail", props=["C06", "C04"], bound="3 xfail marker placements x {create,fix | fix,update,trim | review(all n)} real sessions vs disable")
def run(tier, seed):
    fails, n = [], 0
    base = Path(tempfile.mkdtemp(prefix="bxfail"))
    try:
        files = dict(MODS, **{"pyproject.toml": "[tool.inline-snapshot]\n"})
        ref = None
        for flags in ("disable", "create,fix", "fix,update,trim"):
            d = base / flags.replace(",", "_")
            d.mkdir()
            for k, v in files.items():
                (d / k).write_text(v)
            rc, outcomes, out = session(d, flags)
            n += 1
            if flags == "disable":
                ref = (rc, outcomes)
                continue
            changed = [k for k, v in files.items() if (d / k).read_text() != v]
            msgs = []
            if changed:
                msgs.append(f"modified although every test is marked xfail: {changed}")
            if (rc, outcomes) != ref:
                msgs.append(f"outcomes differ from --inline-snapshot=disable: {outcomes} exit {rc} vs {ref[1]} exit {ref[0]}")
            if msgs:
                fails.append(dict(finding=None, input=f"xfail modules with --inline-snapshot={flags}", detail="; ".join(msgs) + "\n" + out,
                                  replay_code=REPLAY.format(files=files, ci=CI_VARS, flags=flags)))
    finally:
        shutil.rmtree(base, ignore_errors=True)
    return dict(evaluated=n, distinct=n, failures=fails, samples=list(MODS), cross_checks=["X13 pytest reports xfail outcomes with -rA"])
