"""Replay file written by /verif/check.py
{
 "property": "C08",
 "failed_obligation": "_adapter.value_adapter.ValueAdapter.assign/post:update-only-for-token-difference",
 "path": 9,
 "function": "inline_snapshot._adapter.value_adapter.ValueAdapter.assign",
 "verdict": "refuted",
 "backend": "z3-5.1",
 "solver_model": "FalseVal = Val!val!1\nNoneVal = Val!val!2\nNone_Node = Node!val!0\nNone_Val = Val!val!3\nTrueVal = Val!val!0\ncode_from = [else -> Code!val!0]\ndeepcopy_Val = [else ->\n If(And(Var(0) == Val!val!8,\n        Not(Var(0) == Val!val!6),\n        Not(Var(0) == Val!val!2),\n        Not(Var(0) == Val!val!1),\n        Not(Var(0) == Val!val!0),\n        Not(Var(0) == Val!val!4),\n        Not(Var(0) == Val!val!3),\n        Not(Var(0) == Val!val!7)),\n    Val!val!8,\n    Val!val!7)]\nempty_Rec_Chg = K(Int,\n  mk_Rec_Chg(\"!0!\",\n             \"\",\n             Node!val!1,\n             Val!val!2,\n             Val!val!2,\n             Code!val!0,\n             0))\neq_Val = [else -> Val!val!4]\nisinst_JoinedStr = [Node!val!1 -> True, else -> False]\nisinst_Unmanaged = [else -> False]\nisinst_str = [else -> False]\nnew_value!3 = Val!val!6\nnode_tokens = [else -> Toks!val!0]\nnormalized = [else -> Toks!val!1]\nold_node!2 = Node!val!1\nold_value!1 = Val!val!5\ntokens_of = [else -> Toks!val!0]\ntruthy_Val = [Val!val!0 -> True, Val!val!4 -> True, else -> False]\nundefined_Val = Val!val!8\nupdate_allowed = [else -> True]",
 "where": ""
}
"""

print('no native failing input was found for this obligation; see the header for the solver output')
