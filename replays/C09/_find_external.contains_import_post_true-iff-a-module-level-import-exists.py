"""Replay file written by /verif/check.py
{
 "property": "C09",
 "failed_obligation": "_find_external.contains_import/post:true-iff-a-module-level-import-exists",
 "path": 1,
 "function": "inline_snapshot._find_external.contains_import",
 "verdict": "refuted",
 "backend": "z3-5.1",
 "solver_model": "Alias_name = [else -> \"!1!\"]\nStmt_module = [else -> \"!0!\"]\nStmt_names = [else -> mk_List_Alias(K(Int, Alias!val!0), 21239)]\nisinst_Import = [else -> False]\nisinst_ImportFrom = [Stmt!val!1 -> True, else -> False]\nk!15 = 0\nmodule!2 = \"!0!\"\nname!3 = \"!1!\"\ntree.body!1 = mk_List_Stmt(Lambda(k!0,\n                    If(And(0 <= k!0, 1 <= k!0),\n                       Stmt!val!1,\n                       If(And(0 <= k!0, Not(1 <= k!0)),\n                          Stmt!val!0,\n                          Stmt!val!2))),\n             2)",
 "where": ""
}
"""

print('no native failing input was found for this obligation; see the header for the solver output')
