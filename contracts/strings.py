"""Layer S: string literal generation (_utils._str_literal_helper / triple_quote / value_to_token)."""
import ast

from pyvc.contract import static_check
from pyvc import extract

UT = "inline_snapshot._utils"


def _extract_escape_char():
    """The inner function `escape_char` of _str_literal_helper, extracted mechanically from the current source and
    compiled stand-alone with its single free variable `extra` turned into a parameter (nothing else is changed)."""
    m, fn, _, outer = extract.find_function(UT + "._str_literal_helper.escape_char")
    src = ast.get_source_segment(m.source, fn)
    node = ast.parse(__import__("textwrap").dedent(src)).body[0]
    free = {n.id for n in ast.walk(node) if isinstance(n, ast.Name) and isinstance(n.ctx, ast.Load)} - {a.arg for a in node.args.args} - set(dir(__builtins__))
    free = sorted(x for x in free if x not in dir(__import__("builtins")))
    assert free == ["extra"], f"escape_char has unexpected free variables {free}"
    node.args.args.append(ast.arg(arg="extra"))
    ast.fix_missing_locations(node)
    ns = {}
    exec(compile(ast.Module(body=[node], type_ignores=[]), "<extracted escape_char>", "exec"), ns)
    return ns["escape_char"], extract.source_hash(m, fn)


@static_check("escape_char-per-code-point", props=["C12"])
def _escape_char_exhaustive():
    """Per-character lemma of C12, complete over the whole domain: for every code point c (surrogates excluded: they
    cannot be written to a UTF-8 file) and every value of the closure variable `extra` in {'', "'", '"'}:
        literal_eval(q + escape_char(c, extra) + q) == c        for a quote q that the escaped text does not need escaped
    (bulk evaluation: one literal per block of code points, quote characters and line breaks individually)."""
    esc, h = _extract_escape_char()
    rows = []
    specials = {"'", '"', "\n", "\r", "\\"}
    for extra in ("", "'", '"'):
        bad = []
        n = 0
        block = []

        def flush():
            nonlocal block
            if not block:
                return
            text = "".join(block)
            lit = '"""' + "".join(esc(c, extra) for c in block) + '"""'
            try:
                ok = ast.literal_eval(lit) == text
            except Exception:
                ok = False
            if not ok:
                for c in block:
                    try:
                        if ast.literal_eval('"""' + esc(c, extra) + '"""') != c:
                            bad.append(c)
                    except Exception:
                        bad.append(c)
            block = []

        for cp in range(0x110000):
            if 0xD800 <= cp <= 0xDFFF:
                continue
            c = chr(cp)
            n += 1
            if c in specials:
                e = esc(c, extra)
                for q in ('"""', "'''"):
                    # the helper only offers quote types that do not occur in the escaped string; a single quote char is
                    # written raw unless it is `extra`, so test it inside the *other* triple quote
                    if c in q and e == c:
                        continue
                    lit = q + e + (" " if e.endswith(q[0]) else "") + q
                    try:
                        v = ast.literal_eval(lit)
                        if v.rstrip(" ") != c and v != c:
                            bad.append(c)
                    except Exception:
                        bad.append(c)
                continue
            block.append(c)
            if len(block) >= 4096:
                flush()
        flush()
        rows.append(dict(id=f"static/escape_char:extra={extra!r}", ok=not bad,
                         detail=f"{n} code points evaluated on the extracted function (source sha {h}); failing: {[hex(ord(c)) for c in bad[:8]]}"))
    return rows
