"""Replay file written by /verif/check.py
{
 "property": "C12",
 "standin": "B-str",
 "bound": "str/bytes over a 12-symbol adversarial alphabet: all strings of length <= 3 (quick) / <= 5 (thorough) unformatted; hand-picked + 400 (quick) / 20 000 (thorough) seeded random strings of length <= 12 top-level and inside list/dict/tuple through black and format_command=cat; thorough adds every non-surrogate code point as a 1-char string",
 "input": "12 of 24 tasks",
 "detail": "time budget used up before all tasks finished (or a worker died); the bound stated for this stand-in was NOT covered"
}
"""

raise AssertionError('B-str did not finish inside its time budget')
