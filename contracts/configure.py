"""Layer D: pytest_plugin.pytest_configure -- where the approved categories of a session come from (C04)."""
import z3

from pyvc.contract import Loop, Shape, contract
from pyvc.core import Unsupported, fresh_value, pack
from pyvc.defaults import DEFAULT_POLICIES, SHAPES
from pyvc.interp import _MISSING
from pyvc.specs import SPEC_NS
from pyvc.types import BOOL, INT, STR, Abs, Obj, Opaque, SSet, SV, parse_ty, sort_of

from .plugin import _bump, _inc

PP = "inline_snapshot.pytest_plugin"
SETSTR = parse_ty("Set[Str]")
CATS = ["create", "fix", "trim", "update"]


def _sset(I, name):
    return I.V.global_value(I, name)


def p_enter(I, args, kwargs, node):
    """enter_snapshot_context(): a fresh State() becomes current: no flags, active, no update flags"""
    _inc(I, "n_enter")
    st = I.V.global_value(I, "state")
    st.fields["active"] = True
    for c in CATS:
        st.fields["update_flags"].fields[c] = False
    st.fields["flags"] = SSet(z3.K(z3.StringSort(), z3.BoolVal(False)), STR)
    return None


def p_config_ctor(I, args, kwargs, node):
    """_config.Config(): defaults; read_config() below overwrites them from pyproject.toml"""
    return Obj("inline_snapshot._config.Config", {"default_flags": Opaque("default"), "default_flags_tui": Opaque("default"), "storage_dir": None,
                                                  "skip_snapshot_updates_for_now": Opaque("b"), "format_command": Opaque("fc"), "hash_length": Opaque("hl"), "shortcuts": Opaque("sc")})


def p_read_config(I, args, kwargs, node):
    """_config.read_config(path, config): default-flags / default-flags-tui of pyproject.toml (or the built-in defaults)"""
    cfg = args[1]
    cfg.fields["default_flags"] = _sset(I, "cfg_flags")
    cfg.fields["default_flags_tui"] = _sset(I, "cfg_flags_tui")
    return cfg


def p_console(I, args, kwargs, node):
    return Obj("rich.console.Console", {"is_terminal": _sset(I, "tty")})


def pat_env_present(I, n, env):
    return _sset(I, "env_present")


def pat_env_flags(I, n, env):
    return _sset(I, "env_flags")


def pat_cli_absent(I, n, env):
    return _sset(I, "cli_absent")


def pat_cli_split(I, n, env):
    return _sset(I, "cli_words")


def pat_nonempty(I, n, env):
    """{flag for flag in flags if flag}: the non-empty words"""
    s = env.lookup("flags")
    x = z3.Const(I.ctx.fresh_name("w"), z3.StringSort())
    return SSet(z3.Lambda([x], z3.And(z3.Select(s.pred, x), z3.Length(x) > 0)), STR)


def p_storage_ctor(I, args, kwargs, node):
    return Obj("inline_snapshot._external.DiscStorage", {"directory": Opaque("dir")})


def p_prune(I, args, kwargs, node):
    _bump(I)
    _inc(I, "n_prune")
    return None


def s_seteq(I, a, b):
    return I.set_eq(a, b)


def s_has(I, s, w):
    return SV(z3.Select(s.pred, pack(I.ctx, w, STR)), BOOL)


def s_nonempty_words(I, s):
    x = z3.Const(I.ctx.fresh_name("w"), z3.StringSort())
    return SSet(z3.Lambda([x], z3.And(z3.Select(s.pred, x), z3.Length(x) > 0)), STR)


SPEC_NS.update({"seteq": s_seteq, "has": s_has, "nonempty_words": s_nonempty_words})

G = {"state": "@DState", "xdist": "Bool", "ci": "Bool", "impl_ok": "Bool", "cfg_flags": "Set[Str]", "cfg_flags_tui": "Set[Str]", "tty": "Bool", "env_present": "Bool",
     "env_flags": "Set[Str]", "cli_absent": "Bool", "cli_words": "Set[Str]", "inline_snapshot._config.config": "Opaque"}

SOURCE = "ite_set(not cli_absent, nonempty_words(cli_words), ite_set(env_present, env_flags, ite_set(tty, cfg_flags_tui, cfg_flags)))"


def s_ite_set(I, c, a, b):
    x = z3.Const(I.ctx.fresh_name("w"), z3.StringSort())
    return SSet(z3.Lambda([x], z3.If(I.zbool(c), z3.Select(a.pred, x), z3.Select(b.pred, x))), STR)


SPEC_NS["ite_set"] = s_ite_set

KNOWN = "['create', 'fix', 'trim', 'update', 'disable', 'review', 'report', 'short-report']"

contract(
    PP + ".pytest_configure",
    params={"config": "Opaque"},
    globals_=G,
    callees={
        "inline_snapshot._global_state.enter_snapshot_context": p_enter,
        "inline_snapshot.pytest_plugin.xdist_running": "global:xdist", "inline_snapshot.pytest_plugin.is_ci_run": "global:ci",
        "inline_snapshot.pytest_plugin.is_implementation_supported": "global:impl_ok",
        "Config": p_config_ctor, "inline_snapshot._config.read_config": p_read_config, "read_config": p_read_config,
        "rich.console.Console": p_console, "Console": p_console,
        # the built-in defaults chosen by is_pytest_compatible() are subsumed by the symbolic result of read_config(); the
        # sys.meta_path hack it guards is outside the tracked state: one arm is explored
        "executing.is_pytest_compatible": (lambda I, a, k, n: False), "is_pytest_compatible": (lambda I, a, k, n: False),
        "DiscStorage": p_storage_ctor, "DiscStorage.prune_new_files": p_prune,
        "inline_snapshot.pydantic_fix.pydantic_fix": "havoc", "inline_snapshot.fix_pytest_diff.fix_pytest_diff": "havoc",
    },
    extern_patterns={
        "env_var in os.environ": pat_env_present,
        "os.environ[env_var].split(',')": pat_env_flags,
        "config.option.inline_snapshot is None": pat_cli_absent,
        "config.option.inline_snapshot.split(',')": pat_cli_split,
        "{flag for flag in flags if flag}": pat_nonempty,
    },
    loops={0: Loop(ghost_modifies=[], inv={"trivial": "True"})},
    ensures={
        # C04: "a category flag on the command line, in INLINE_SNAPSHOT_DEFAULT_FLAGS, in default-flags ... of pyproject.toml" -- CLI > env > pyproject
        "flags-come-from-cli-else-env-else-pyproject [C04]": "seteq(state.flags, " + SOURCE + ")",
        # C04/C06: never active under xdist / CI / unsupported interpreters; review activates; otherwise active unless disabled
        "active-only-when-allowed [C04,C06]": "state.active == (not xdist and impl_ok and not ci and (has(state.flags, 'review') or not has(state.flags, 'disable')))",
        # C04: review offers every category; otherwise exactly the categories given
        "update-flags-are-the-given-categories [C04,C19]": "implies(not xdist and impl_ok and not ci and not has(state.flags, 'review'),"
            " " + " and ".join(f"state.update_flags.{c} == has(state.flags, '{c}')" for c in CATS) + ")",
        "review-offers-every-category [C04]": "implies(not xdist and impl_ok and not ci and has(state.flags, 'review'), " + " and ".join(f"state.update_flags.{c}" for c in CATS) + ")",
        "nothing-offered-when-disabled-by-the-environment [C04,C06]": "implies(xdist or not impl_ok or ci, " + " and ".join(f"not state.update_flags.{c}" for c in CATS) + ")",
        "only-known-words-are-accepted [C04]": "all_obs(state.flags, lambda w: " + " or ".join(f"w == '{k}'" for k in eval(KNOWN)) + ", 'Str')",
        "disable-stands-alone [C04,C06]": "implies(has(state.flags, 'disable'), all_obs(state.flags, lambda w: w == 'disable', 'Str'))",
        # C13: "an outsourced but unreferenced file never survives the start of the next session"
        "prunes-new-externals-at-session-start [C13]": "n_prune == 1 and n_enter == 1",
    },
    raises={"UsageError": {"usage-errors-happen-before-anything-is-pruned [C04,C13]": "n_prune == 0"}},
    ghost={"vars": {"n_enter": "=0", "n_prune": "=0"}, "light_feasibility": True, "havoc_unknown_externals": True, "untracked": ["directory", "pyproject", "external_storage"]},
    safety_props=["C18"],
    assumes=["A-frame", "X13"],
)

# ---------------------------------------------------------------------------------------------- is_ci_run

CI_VARS = ("CI", "bamboo.buildKey", "BUILD_ID", "BUILD_NUMBER", "BUILDKITE", "CIRCLECI", "CONTINUOUS_INTEGRATION", "GITHUB_ACTIONS", "HUDSON_URL",
           "JENKINS_URL", "TEAMCITY_VERSION", "TRAVIS")


def _env_nonempty(name):
    return z3.Function("env_nonempty", z3.StringSort(), z3.BoolSort())(z3.StringVal(name))


def p_environ_get(I, args, kwargs, node):
    """os.environ.get(name, default): a non-empty string when the variable is set to one, otherwise something falsy (the default / '')"""
    name = args[-2] if len(args) >= 2 else args[-1]
    default = args[-1] if len(args) >= 2 else None
    if not isinstance(name, str):
        raise Unsupported("os.environ.get with a symbolic name")
    if I.ctx.branch(_env_nonempty(name)):
        v = fresh_value(I.ctx, STR, "env_" + name.replace(".", "_"))
        I.ctx.assume(z3.Length(v.t) > 0)
        return v
    return default


def s_env_nonempty(I, name):
    return SV(_env_nonempty(name), BOOL)


SPEC_NS.update({"env_nonempty": s_env_nonempty})

contract(
    PP + ".is_ci_run",
    params={},
    callees={"os.environ.get": p_environ_get, "environ.get": p_environ_get},
    returns=None,
    result_name="ret",
    ensures={
        # C06/C04: "when disabled (flag, CI, xdist, xfail) snapshot(v) returns v itself" / "a detected CI environment ... leave every file
        # byte-identical": a CI server announces itself by *any* non-empty value of one of these variables (URLs, build numbers, version
        # strings - not only "true"); PyCharm's test runner (PYCHARM_HOSTED) is not a CI server although it exports TEAMCITY_VERSION
        "ci-iff-a-ci-variable-is-set [C06,C04]": "T(ret) == (not env_nonempty('PYCHARM_HOSTED') and (" + " or ".join(f"env_nonempty({v!r})" for v in CI_VARS) + "))",
    },
    frame=[],
    safety_props=["C18"],
    assumes=["X8"],
)
