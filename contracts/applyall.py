"""_change.apply_all: the dispatch of the recorded changes (Layer A).

What is proved (for every list of changes, any length): the first loop handles every change exactly once - a Delete / DictInsert /
ListInsert / CallArg is filed under exactly one container node (the parent of a deleted element, the grand-parent for a keyword
value, the node itself for inserts and call arguments) and is *not* applied on its own; every other change (Replace, ...) is applied
exactly once with the recorder of this call.  The second loop calls `generic_sequence_update` exactly once per container group, with
that container and the same recorder - so all edits of one container are computed together (C09, C18: never two independent edits
of the same brace range).

Abstractions: a change is an element of the uninterpreted sort `Chng` (its class is observed only through isinstance), ast nodes
are `Node` values, the `defaultdict(list)` is a multimap whose appends are recorded in the ghost list `grouped`; `by_parent.items()`
yields one (container, changes) pair per group (assumed: dict semantics).  The arguments handed to `generic_sequence_update`
(token ranges, insert tables) are built by comprehensions over asttokens results and are not part of this contract: the callee's own
contract covers what it does with them, the stand-ins B-gsu / B-layout / B-rt cover how they are built.
"""
import ast

import z3

from pyvc.contract import Loop, Shape, contract
from pyvc.core import list_append, fresh_value
from pyvc.specs import SPEC_NS
from pyvc.types import BOOL, INT, Abs, Obj, Opaque, SV, parse_ty, sort_of

from .files import _ginc

CH = "inline_snapshot._change"
CHNG = Abs("Chng")
NODE = Abs("Node")


def _p_cast(I, args, kwargs, node):
    return args[1]


def _p_defaultdict(I, args, kwargs, node):
    """by_parent = defaultdict(list): by_parent[key].append(change) files the change under key"""
    I.ghost["n_tables"] = I.ghost["n_tables"] + 1
    if I.ghost["n_tables"] > 1:
        return Opaque("defaultdict")

    def getitem(I2, key):
        def append(I3, change):
            list_append(I3.ctx, I3.ghost["grouped"], (key, change))
            return None

        return Obj("GroupList", {"append": append})

    def items(I2):
        groups = fresh_value(I2.ctx, parse_ty("List[Tuple[Node,List[Chng]]]"), "groups")
        I2.ghost["groups"] = groups
        return groups

    return Obj("MultiMap", {"__getitem__": getitem, "items": items})


def _p_insert_table(I, args, kwargs, node):
    def getitem(I2, key):
        return Obj("InsertList", {"append": lambda I3, x: None})

    return Obj("InsertTable", {"__getitem__": getitem})


def _p_apply(I, a, k, n):
    _ginc(I, "n_applied")
    I.ghost["last_applied"] = a[0]
    I.ghost["applied_with"] = a[1] if len(a) > 1 else None
    return None


def _p_gsu(I, args, kwargs, node):
    _ginc(I, "n_gsu")
    I.ghost["gsu_parent"] = args[1] if len(args) > 1 else None
    I.ghost["gsu_recorder"] = args[5] if len(args) > 5 else kwargs.get("recorder")
    I.V.may_raise(I, "generic_sequence_update")
    return None


def _stmt_hook(I, st, env):
    """`sources[node] = change.file` / `source = sources[parent]`: the file of a container is the file of its changes (all changes of
    one snapshot live in one file); not tracked here"""
    if isinstance(st, ast.Assign) and len(st.targets) == 1:
        t = st.targets[0]
        if isinstance(t, ast.Subscript) and isinstance(t.value, ast.Name) and t.value.id == "sources":
            return True
        if isinstance(st.value, ast.Subscript) and isinstance(st.value.value, ast.Name) and st.value.value.id == "sources" and isinstance(t, ast.Name):
            env.set(t.id, Opaque("source file of the container"))
            return True
    return False


def s_container_of(I, change):
    """the node a grouped change is filed under"""
    isd = z3.Function("isinst_Delete", sort_of(CHNG), z3.BoolSort())
    node = z3.Function("Chng_node", sort_of(CHNG), sort_of(NODE))
    parent = z3.Function("Node_parent", sort_of(NODE), sort_of(NODE))
    iskw = z3.Function("isinst_keyword", sort_of(NODE), z3.BoolSort())
    c = change.t
    p = parent(node(c))
    return SV(z3.If(isd(c), z3.If(iskw(p), parent(p), p), node(c)), NODE)


def s_grouped_kind(I, change):
    fs = [z3.Function("isinst_" + n, sort_of(CHNG), z3.BoolSort()) for n in ("Delete", "DictInsert", "ListInsert", "CallArg")]
    return SV(z3.Or([f(change.t) for f in fs]), BOOL)


SPEC_NS.update({"container_of": s_container_of, "grouped_kind": s_grouped_kind})

_LAST = "grouped[len(grouped) - 1]"

contract(
    CH + ".apply_all",
    params={"all_changes": "List[Chng]", "recorder": "Opaque"},
    attrs={"Chng.node": "Node", "Chng.file": "Opaque", "Chng.position": "Int", "Chng.new_code": "Opaque", "Chng.arg_name": "Opaque", "Chng.arg_pos": "Opaque",
           "Chng.apply": _p_apply, "Node.parent": "Node", "Node.elts": "Opaque", "Node.func": "Opaque", "Node.args": "Opaque", "Node.keywords": "Opaque",
           "Node.keys": "Opaque", "Node.values": "Opaque"},
    callees={"cast": _p_cast, "typing.cast": _p_cast, "defaultdict": _p_defaultdict, "collections.defaultdict": _p_defaultdict,
             "DefaultDict": _p_insert_table, "typing.DefaultDict": _p_insert_table,
             CH + ".generic_sequence_update": _p_gsu, CH + ".brace_tokens": "havoc", CH + ".with_parentheses": "havoc"},
    ghost={"vars": {"grouped": "=emptylist:Tuple[Node,Chng]", "n_applied": "=0", "last_applied": "=None", "applied_with": "=None", "n_gsu": "=0",
                    "gsu_parent": "=None", "gsu_recorder": "=None", "groups": "=None", "n_tables": "=0"},
           "stmt_hook": _stmt_hook, "abs_attr_default": (lambda I, sv, attr: Opaque(f"{sv.ty.key}.{attr}")), "may_raise": True, "asserts_raise": True, "havoc_unknown_externals": True, "light_feasibility": True},
    loops={
        0: Loop(index="k", ghost_modifies=["grouped", "n_applied", "last_applied", "applied_with"],
                inv={"every-change-so-far-handled-exactly-once": "len(grouped) + n_applied == k and n_gsu == 0"},
                iter_post={
                    "container-edits-are-filed-under-their-container-and-not-applied [C09,C18,C03]":
                        f"implies(grouped_kind(change), len(grouped) >= 1 and same_chng({_LAST}[1], change) and {_LAST}[0] == container_of(change))",
                    "other-changes-are-applied-with-this-recorder [C03,C18]":
                        "implies(not grouped_kind(change), same_chng(last_applied, change) and applied_with is recorder)",
                }),
        1: Loop(index="g", ghost_modifies=["n_gsu", "gsu_parent", "gsu_recorder"],
                inv={"one-sequence-update-per-container-so-far": "n_gsu == g"},
                iter_post={"this-container-with-this-recorder [C09,C18]": "gsu_parent == parent and gsu_recorder is recorder"}),
        2: Loop(index="m", ghost_modifies=[], inv={}),
    },
    ensures={
        "every-change-handled-exactly-once [C09,C18,C03]": "len(grouped) + n_applied == len(all_changes)",
        "one-sequence-update-per-container [C09,C18]": "n_gsu == len(groups)",
    },
    raises={"AssertionError": {}, "UnknownError": {}},
    safety_props=["C18"],
    assumes=["X3", "X9"],
)


def s_same_chng(I, a, b):
    if isinstance(a, SV) and isinstance(b, SV) and a.ty == CHNG and b.ty == CHNG:
        return SV(a.t == b.t, BOOL)
    return False


SPEC_NS["same_chng"] = s_same_chng

# ---------------------------------------------------------------------------------------------- with_parentheses
#
# `[(5), 1]`: the tokens of the first element are only `5`; the range that is deleted / kept must include the parentheses around
# it (F21), but never the braces of the container itself.  Tokens are (index, string) records; X3 (asttokens): `prev_token(t)` /
# `next_token(t)` are the tokens with index - 1 / + 1, their text is `text_at(index)`.

from pyvc.types import STR, declare_record
from pyvc.core import zint

declare_record("Tok", {"index": INT, "string": STR})
_TEXT_AT = z3.Function("text_at", z3.IntSort(), z3.StringSort())


def _tok_at(I, idx):
    return Obj("Tok", {"index": SV(z3.simplify(idx), INT), "string": SV(_TEXT_AT(idx), STR)}, rec=parse_ty("Tok"))


def _wp_setup(I, env):
    def prev_token(I2, t):
        return _tok_at(I2, zint(t.fields["index"]) - 1)

    def next_token(I2, t):
        return _tok_at(I2, zint(t.fields["index"]) + 1)

    atok = Obj("ASTTokens", {"prev_token": prev_token, "next_token": next_token})
    env.vars["source"].fields["asttokens"] = lambda I2: atok


def s_text_at(I, i):
    return SV(_TEXT_AT(zint(i)), STR)


SPEC_NS["text_at"] = s_text_at
_F0, _L0 = "token_range[0].index", "token_range[1].index"
_LAYERS = "all(text_at({f0} - i) == '(' and text_at({l0} + i) == ')' for i in range(1, {n} + 1))"

contract(
    CH + ".with_parentheses",
    params={"source": "@WPSource", "token_range": "Tuple[Tok,Tok]", "braces": "Tuple[Tok,Tok]"},
    shapes={"WPSource": Shape("inline_snapshot._source_file.SourceFile", {})},
    ghost={"setup": _wp_setup},
    requires={
        "element-inside-the-braces (X3)": f"braces[0].index < {_F0} and {_F0} <= {_L0} and {_L0} < braces[1].index",
        "tokens-carry-their-text (X3)": f"token_range[0].string == text_at({_F0}) and token_range[1].string == text_at({_L0})",
    },
    loops={0: Loop(inv={
        "symmetric-extension": f"first.index <= {_F0} and last.index - {_L0} == {_F0} - first.index",
        "inside-the-braces": "braces[0].index < first.index and last.index < braces[1].index",
        "only-parenthesis-pairs-so-far": _LAYERS.format(f0=_F0, l0=_L0, n=f"({_F0} - first.index)"),
    }, decreases="first.index - braces[0].index", modifies=["first", "last", "prev_token", "next_token"])},
    returns=None,
    result_name="ret",
    ensures={
        # C03/C18 (F21): the returned range encloses the element, adds only matching "(" ... ")" pairs, never reaches the braces ...
        "encloses-the-element-by-parenthesis-pairs-only [C03,C18,C11]":
            f"ret[0].index <= {_F0} and ret[1].index - {_L0} == {_F0} - ret[0].index and " + _LAYERS.format(f0=_F0, l0=_L0, n=f"({_F0} - ret[0].index)"),
        "stays-inside-the-braces [C03,C18,C10]": "braces[0].index < ret[0].index and ret[1].index < braces[1].index",
        # ... and is maximal: no further pair directly around it inside the braces
        "no-further-pair-around-it [C03,C18]":
            "not (text_at(ret[0].index - 1) == '(' and text_at(ret[1].index + 1) == ')' and ret[0].index - 1 > braces[0].index and ret[1].index + 1 < braces[1].index)",
    },
    frame=[],
    safety_props=["C18"],
    assumes=["X3"],
)
