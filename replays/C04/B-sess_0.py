"""Replay file written by /verif/check.py
{
 "property": "C04",
 "standin": "B-sess",
 "bound": "real pytest subprocess sessions on 1 (quick) / 3 (thorough) generated 4-category template projects: 16 category subsets x {flags, +report, +short-report, review answers, review+flags, env var, pyproject, CI, xdist} (quick: ~35 of these) + single-test (-k) sessions per failing operation; external-storage histories of 7 steps + no-trim probes for 2 (quick) / 6 (thorough) data/suffix/hash-length/storage-dir variants",
 "input": {
  "template": "T0",
  "mode": "xdist-env",
  "F": [
   "create",
   "fix",
   "trim",
   "update"
  ],
  "args": [
   "-n",
   "2"
  ],
  "env": {
   "INLINE_SNAPSHOT_DEFAULT_FLAGS": "create,fix,trim,update"
  },
  "stdin": "",
  "approved": []
 },
 "detail": "C04: nothing approved but: M test_t.py\n--- session output (tail)\nPASSED test_t.py::test_ge_trim\nPASSED test_t.py::test_key_create\nPASSED test_t.py::test_key_fix\nPASSED test_t.py::test_key_trim\nPASSED test_t.py::test_second_wrong\nPASSED test_t.py::test_mixed\nPASSED test_t.py::test_loop_fix\nXFAIL test_x.py::test_x_create\nXFAIL test_x.py::test_x_fix\nXFAIL test_x_mod.py::test_x_mod_create\nXFAIL test_x_cls.py::TestX::test_x_cls_create\nXFAIL test_x_mod.py::test_x_mod_fix\nXFAIL test_x_cls.py::TestX::test_x_cls_fix\nERROR test_t.py::test_create - Failed: your snapshot is missing one value.\nERROR test_t.py::test_fix - Failed: some snapshots in this test have incorrec...\nERROR test_t.py::test_in_create - Failed: your snapshot is missing one value.\nERROR test_t.py::test_ge_fix - Failed: some snapshots in this test have incor...\nERROR test_t.py::test_le_fix - Failed: some snapshots in this test have incor...\nERROR test_t.py::test_in_fix - Failed: some snapshots in this test have incor...\nERROR test_t.py::test_key_create - Failed: your snapshot is missing 2 values.\nERROR test_t.py::test_key_fix - Failed: some snapshots in this test have inco...\nERROR test_t.py::test_second_wrong - Failed: some snapshots in this test have...\nERROR test_t.py::test_mixed - Failed: some snapshots in this test have incorr...\nERROR test_t.py::test_loop_fix - Failed: some snapshots in this test have inc...\n================== 18 passed, 6 xfailed, 11 errors in 10.81s ==================="
}
"""


# stand-alone replay: runs real pytest sessions of the plugin installed for this interpreter
# (run with /verif/.venv/bin/python, which sees the editable install of /repo).
import ast, os, shutil, subprocess, sys, tempfile
import xml.etree.ElementTree as ET
from pathlib import Path

CI_VARS = ('CI', 'bamboo.buildKey', 'BUILD_ID', 'BUILD_NUMBER', 'BUILDKITE', 'CIRCLECI', 'CONTINUOUS_INTEGRATION', 'GITHUB_ACTIONS', 'HUDSON_URL', 'JENKINS_URL', 'TEAMCITY_VERSION', 'TRAVIS', 'PYCHARM_HOSTED')
OTHER = ('INLINE_SNAPSHOT_DEFAULT_FLAGS', 'FORCE_COLOR', 'NO_COLOR', 'PYTEST_ADDOPTS', 'PYTEST_PLUGINS', 'PYTHONHASHSEED')
BASE_ARGS = ('-p', 'no:cacheprovider', '-p', 'no:benchmark', '-rA')


def _env(extra, tty):
    env = dict(os.environ)
    for v in CI_VARS + OTHER:
        env.pop(v, None)
    env.update(TERM="unknown", COLUMNS="80", PYTHONDONTWRITEBYTECODE="1")
    if tty:
        env["FORCE_COLOR"] = "true"
    env.update(extra or {})
    return env


def tree(root):
    return {p.relative_to(root).as_posix(): p.read_bytes() for p in sorted(Path(root).rglob("*"))
            if p.is_file() and "__pycache__" not in p.parts}


def write(root, files):
    for n, c in files.items():
        p = Path(root) / n
        p.parent.mkdir(parents=True, exist_ok=True)
        p.write_bytes(c if isinstance(c, bytes) else c.encode())


def outcomes(path):
    out = {}
    try:
        r = ET.parse(path).getroot()
    except Exception:
        return None
    for tc in r.iter("testcase"):
        k = out.setdefault(tc.get("classname") + "::" + tc.get("name"), set())
        kinds = {"failed" if c.tag == "failure" else c.tag for c in tc if c.tag in ("failure", "error", "skipped")}
        k.update(kinds or {"passed"})
    return out


def session(proj, args=(), env=None, stdin=b"", tty=None):
    out = tempfile.mkdtemp()
    try:
        before = tree(proj)
        p = subprocess.run([sys.executable, "-m", "pytest", *BASE_ARGS, "--junitxml=" + out + "/j.xml", *args],
                           cwd=proj, env=_env(env, bool(stdin) if tty is None else tty), input=stdin,
                           capture_output=True)
        return dict(rc=p.returncode, out=p.stdout.decode("utf-8", "replace"), err=p.stderr.decode("utf-8", "replace"),
                    outcomes=outcomes(out + "/j.xml"), before=before, after=tree(proj))
    finally:
        shutil.rmtree(out, ignore_errors=True)


def dump(src):
    return ast.dump(ast.parse(src.decode() if isinstance(src, bytes) else src))


ROOT = tempfile.mkdtemp()
PROJ = os.path.join(ROOT, "proj")
os.mkdir(PROJ)
try:
    FILES = {'test_t.py': 'from inline_snapshot import snapshot\n\n\ndef test_create():\n    assert 59 == snapshot()\n\n\ndef test_fix():\n    assert 59 == snapshot(57)\n\n\ndef test_trim():\n    assert 59 <= snapshot(61)\n\n\ndef test_update():\n    assert "q" == snapshot(\'\'\'q\'\'\')\n\n\ndef test_ok():\n    assert [1, 59] == snapshot([1, 59])\n\n\ndef test_in_create():\n    assert 59 in snapshot()\n\n\ndef test_in_fix():\n    assert 59 in snapshot([57])\n\n\ndef test_in_trim():\n    assert 59 in snapshot([59, 61])\n\n\ndef test_ge_fix():\n    assert 59 >= snapshot(61)\n\n\ndef test_le_fix():\n    assert 59 <= snapshot(57)\n\n\ndef test_ge_trim():\n    assert 59 >= snapshot(57)\n\n\ndef test_key_create():\n    s = snapshot()\n    assert 59 == s["k"]\n\n\ndef test_key_fix():\n    s = snapshot({"k": 57})\n    assert 59 == s["k"]\n\n\ndef test_key_trim():\n    s = snapshot({"k": 59, "j": 2})\n    assert 59 == s["k"]\n\n\ndef test_mixed():\n    assert [59, "q", 3] == snapshot([61, \'\'\'q\'\'\', 3])\n\n\ndef test_loop_fix():\n    for _ in range(2):\n        assert 59 == snapshot(60)\n\n\ndef test_second_wrong():\n    assert 1 == snapshot(1)\n    assert 59 == snapshot(61)\n', 'test_clean.py': 'from inline_snapshot import snapshot\n\n\ndef test_c():\n    assert 59 == snapshot(59)\n    assert 59 <= snapshot(59)\n    assert 59 in snapshot([59])\n', 'test_x.py': 'import pytest\nfrom inline_snapshot import snapshot\n\n\n@pytest.mark.xfail\ndef test_x_create():\n    assert 59 == snapshot()\n\n\n@pytest.mark.xfail\ndef test_x_fix():\n    assert 59 == snapshot(60)\n', 'test_x_cls.py': 'import pytest\nfrom inline_snapshot import snapshot\n\n\n@pytest.mark.xfail\nclass TestX:\n    def test_x_cls_create(self):\n        assert 59 == snapshot()\n\n    def test_x_cls_fix(self):\n        assert 59 == snapshot(60)\n', 'test_x_mod.py': 'import pytest\nfrom inline_snapshot import snapshot\n\npytestmark = pytest.mark.xfail\n\n\ndef test_x_mod_create():\n    assert 59 == snapshot()\n\n\ndef test_x_mod_fix():\n    assert 59 == snapshot(60)\n', 'pyproject.toml': '[tool.inline-snapshot]\n'}
    PLAIN = {'test_t.py': 'from inline_snapshot import snapshot\n\n\ndef test_create():\n    assert 59 == snapshot()\n\n\ndef test_fix():\n    assert 59 == snapshot(57)\n\n\ndef test_trim():\n    assert 59 <= snapshot(61)\n\n\ndef test_update():\n    assert "q" == snapshot(\'\'\'q\'\'\')\n\n\ndef test_ok():\n    assert [1, 59] == snapshot([1, 59])\n\n\ndef test_in_create():\n    assert 59 in snapshot()\n\n\ndef test_in_fix():\n    assert 59 in snapshot([57])\n\n\ndef test_in_trim():\n    assert 59 in snapshot([59, 61])\n\n\ndef test_ge_fix():\n    assert 59 >= snapshot(61)\n\n\ndef test_le_fix():\n    assert 59 <= snapshot(57)\n\n\ndef test_ge_trim():\n    assert 59 >= snapshot(57)\n\n\ndef test_key_create():\n    s = snapshot()\n    assert 59 == s["k"]\n\n\ndef test_key_fix():\n    s = snapshot({"k": 57})\n    assert 59 == s["k"]\n\n\ndef test_key_trim():\n    s = snapshot({"k": 59, "j": 2})\n    assert 59 == s["k"]\n\n\ndef test_mixed():\n    assert [59, "q", 3] == snapshot([61, \'\'\'q\'\'\', 3])\n\n\ndef test_loop_fix():\n    for _ in range(2):\n        assert 59 == snapshot(60)\n\n\ndef test_second_wrong():\n    assert 1 == snapshot(1)\n    assert 59 == snapshot(61)\n', 'test_clean.py': 'from inline_snapshot import snapshot\n\n\ndef test_c():\n    assert 59 == snapshot(59)\n    assert 59 <= snapshot(59)\n    assert 59 in snapshot([59])\n', 'test_x.py': 'import pytest\nfrom inline_snapshot import snapshot\n\n\n@pytest.mark.xfail\ndef test_x_create():\n    assert 59 == snapshot()\n\n\n@pytest.mark.xfail\ndef test_x_fix():\n    assert 59 == snapshot(60)\n', 'test_x_cls.py': 'import pytest\nfrom inline_snapshot import snapshot\n\n\n@pytest.mark.xfail\nclass TestX:\n    def test_x_cls_create(self):\n        assert 59 == snapshot()\n\n    def test_x_cls_fix(self):\n        assert 59 == snapshot(60)\n', 'test_x_mod.py': 'import pytest\nfrom inline_snapshot import snapshot\n\npytestmark = pytest.mark.xfail\n\n\ndef test_x_mod_create():\n    assert 59 == snapshot()\n\n\ndef test_x_mod_fix():\n    assert 59 == snapshot(60)\n', 'pyproject.toml': '[tool.inline-snapshot]\n'}
    APPROVED = []
    write(PROJ, FILES)
    r = session(PROJ, ['-n', '2'], env={'INLINE_SNAPSHOT_DEFAULT_FLAGS': 'create,fix,trim,update'})
    print(r['out'][-3000:])
    if not APPROVED:
        assert r['after'] == r['before'], sorted(k for k in set(r['after']) | set(r['before']) if r['after'].get(k) != r['before'].get(k))
    else:
        P2 = os.path.join(ROOT, 'p2'); os.mkdir(P2); write(P2, PLAIN)
        for c in APPROVED:
            session(P2, ['--inline-snapshot=' + c])
        exp = tree(P2)
        assert set(r['after']) == set(r['before']), (sorted(r['after']), sorted(r['before']))
        for k, v in r['after'].items():
            if k.endswith('.py') and k in exp:
                assert dump(v) == dump(exp[k]), (k, v.decode(), exp[k].decode())
                if exp[k] == r['before'][k]: assert v == r['before'][k], k
            else:
                assert v == r['before'][k], k
finally:
    shutil.rmtree(ROOT, ignore_errors=True)
print("replay: no violation observed")

