"""Shapes, globals and default callee policies shared by the sidecars (Layer B / C / D)."""
from pyvc import defaults as R
from pyvc.contract import Shape

R.SHAPES.update({
    "Flags": Shape("inline_snapshot._flags.Flags", {"create": "Bool", "fix": "Bool", "trim": "Bool", "update": "Bool"}),
    "State": Shape("inline_snapshot._global_state.State", {
        "missing_values": "Int", "incorrect_values": "Int", "update_flags": "@Flags", "active": "Bool",
        "snapshots": "Opaque", "files_with_snapshots": "Opaque", "storage": "Opaque", "flags": "Opaque"}),
    "SourceFileW": Shape("inline_snapshot._source_file.SourceFile", {"_source": "Opaque"}),
    "Context": Shape("inline_snapshot._adapter.adapter.AdapterContext", {"file": "@SourceFileW", "frame": "Opaque"}),
    "Value": Shape("inline_snapshot._snapshot.generic_value.GenericValue", {
        "_old_value": "Val", "_new_value": "Val", "_ast_node": "Node", "_context": "@Context"}),
})
R.DEFAULT_POLICIES["globals"].update({"state": "@State"})
R.DEFAULT_POLICIES.update({
    "inline_snapshot._global_state.state": "global:state",
})

R.DEFAULT_POLICIES["globals"].update({"cmp_only": "Bool"})
R.DEFAULT_POLICIES.update({
    "inline_snapshot._compare_context.compare_only": "global:cmp_only",
})

# ---------------------------------------------------------------------------------------------
# change events (yielded by _get_changes / assign generators) as value records

import z3

from pyvc.core import Unsupported, pack
from pyvc.specs import val_term
from pyvc.types import Abs, Obj, Opaque, SV, declare_record, parse_ty, sort_of, STR, INT

declare_record("Chg", {"kind": STR, "flag": STR, "node": Abs("Node"), "old_value": Abs("Val"), "new_value": Abs("Val"),
                       "code": Abs("Code"), "position": INT})
declare_record("Item", {"value": Abs("Val"), "node": Abs("Node")})
R.DEFAULT_POLICIES["trace_ty"] = "Chg"


def _node_term(I, n):
    if n is None:
        return I.V.none_const(Abs("Node"))
    if isinstance(n, SV) and n.ty == Abs("Node"):
        return n.t
    if isinstance(n, Obj) and "__term__" in n.fields:
        return n.fields["__term__"].t
    raise Unsupported(f"not a node: {n!r}")


def _code_term(I, c):
    if isinstance(c, SV) and c.ty == Abs("Code"):
        return c.t
    return z3.Const(I.ctx.fresh_name("somecode"), sort_of(Abs("Code")))


def _val_or_fresh(I, x):
    try:
        return SV(val_term(I, x), Abs("Val"))
    except Unsupported:
        return SV(z3.Const(I.ctx.fresh_name("nv"), sort_of(Abs("Val"))), Abs("Val"))


def encode_change(I, v):
    """A yielded Change dataclass instance -> Chg record (what the contracts talk about)."""
    if isinstance(v, Obj) and v.rec is not None:
        return v
    if not isinstance(v, Obj):
        raise Unsupported(f"yield of {v!r}")
    kind = v.cls.rsplit(".", 1)[-1]
    f = v.fields
    chg = parse_ty("Chg")
    node = f.get("node")
    pos = f.get("position", f.get("arg_pos", 0))
    rec = Obj("Chg", {
        "kind": kind, "flag": f["flag"],
        "node": SV(_node_term(I, node), Abs("Node")),
        "old_value": _val_or_fresh(I, f.get("old_value", Ellipsis)),
        "new_value": _val_or_fresh(I, f.get("new_value", f.get("new_values", Ellipsis))),
        "code": SV(_code_term(I, f.get("new_code")), Abs("Code")),
        "position": pos if pos is not None else -1,
    }, rec=chg)
    return rec


R.DEFAULT_POLICIES["encode_event"] = encode_change

# ---------------------------------------------------------------------------------------------
# token / code abstraction:  value_to_token(v) = tokens_of(v);  _token_of_node(n) = node_tokens(n);
# _token_to_code(t) = code_from(t)   (uninterpreted, deterministic; X2/X10 are about what they denote)

_Toks = Abs("Toks")


def _fn(name, *sorts):
    return z3.Function(name, *[sort_of(s) for s in sorts])


def p_value_to_token(I, args, kwargs, node):
    return SV(_fn("tokens_of", Abs("Val"), _Toks)(val_term(I, args[0])), _Toks)


def p_token_of_node(I, args, kwargs, node):
    # SourceFile._token_of_node(None) raises (asttokens needs a node): callers check `node is not None` first (C18)
    nd = args[-1]
    if nd is None:
        I.oblige("safety", "token_of_node.node-is-not-None [C18]", z3.BoolVal(False))
    elif isinstance(nd, SV) and nd.ty == Abs("Node"):
        I.oblige("safety", "token_of_node.node-is-not-None [C18]", nd.t != I.V.none_const(Abs("Node")))
    return SV(_fn("node_tokens", Abs("Node"), _Toks)(_node_term(I, args[-1])), _Toks)


def p_normalize(I, args, kwargs, node):
    """_utils.normalize(tokens): the token sequence without trailing commas / with joined string fragments - used to *compare*
    source tokens with generated ones; as code it is a different text (a 1-tuple loses its comma)"""
    t = args[0]
    if isinstance(t, SV) and t.ty == _Toks:
        return SV(_fn("normalized", _Toks, _Toks)(t.t), _Toks)
    return Opaque("normalize(...)")


def p_token_to_code(I, args, kwargs, node):
    t = args[-1]
    if isinstance(t, SV) and t.ty == _Toks:
        return SV(_fn("code_from", _Toks, Abs("Code"))(t.t), Abs("Code"))
    return SV(z3.Const(I.ctx.fresh_name("code"), sort_of(Abs("Code"))), Abs("Code"))


def s_code_of(I, v):
    toks = _fn("tokens_of", Abs("Val"), _Toks)(val_term(I, v))
    return SV(_fn("code_from", _Toks, Abs("Code"))(toks), Abs("Code"))


def s_tokens_differ(I, node, v):
    a = _fn("node_tokens", Abs("Node"), _Toks)(_node_term(I, node))
    b = _fn("tokens_of", Abs("Val"), _Toks)(val_term(I, v))
    from pyvc.types import BOOL

    return SV(a != b, BOOL)


from pyvc.specs import SPEC_NS

SPEC_NS.update({"code_of": s_code_of, "tokens_differ": s_tokens_differ})
R.DEFAULT_POLICIES.update({
    "inline_snapshot._utils.value_to_token": p_value_to_token,
    "inline_snapshot._utils.normalize": p_normalize,
    "SourceFile._token_of_node": p_token_of_node,
    "SourceFile._token_to_code": p_token_to_code,
    "SourceFile._value_to_code": "inline",
    "GenericValue._file": "inline",
})

R.DEFAULT_POLICIES.update({
    "Flags.all": "inline", "Flags.__init__": "inline", "Flags.__iter__": "inline", "Flags.to_set": "inline",
})

R.DEFAULT_POLICIES["attrs"].update({"Node.lineno": "Int", "Node.col_offset": "Int", "Node.end_lineno": "Int", "Node.end_col_offset": "Int"})

R.DEFAULT_POLICIES.update({"SourceFile.filename": "havoc"})
