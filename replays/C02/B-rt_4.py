"""Replay file written by /verif/check.py
{
 "property": "C02",
 "standin": "B-rt",
 "bound": "generated test modules through Example.run_inline: C01 value trees depth<=2 (quick)/3 (thorough), width<=3, 6 operations x 4 placements + multi-value snapshots, flags=create; C02 (odd old text, new value) pairs depth<=2/3 incl. two-snapshot bodies, flags=create,fix; oracle = rewritten module compiles and re-runs green with snapshot := identity",
 "input": {
  "prop": "C02",
  "old": "int(\"-5\")",
  "new": "'ab'",
  "op": "eq",
  "shape": "create_then_fix",
  "placement": "assert",
  "old2": "NT(  a = 1 , b = None )",
  "new2": "NT(a=(1, 1), b=None)"
 },
 "detail": "a test raised during the create,fix run: TypeError:\nNT.__new__() missing 1 required positional argument: 'b'\nsource:\ndef test_a():\n    v1 = 'ab'\n    v2 = NT(a=(1, 1), b=None)\n    assert v1 == snapshot()\n    assert v2 == snapshot(NT(  a = 1 , b = None ))\n\nrewritten:\ndef test_a():\n    v1 = 'ab'\n    v2 = NT(a=(1, 1), b=None)\n    assert v1 == snapshot(\"ab\")\n    assert v2 == snapshot(NT(  a = 1 , b = None ))\n"
}
"""

# stand-alone replay against /repo (run with /verif/.venv/bin/python); exits non-zero / AssertionError when it fails
import sys, io, os, contextlib, tempfile, shutil
from inline_snapshot.testing import Example
import inline_snapshot

class _Cap:
    text = None
    def __eq__(self, o):
        self.text = o
        return True

class _Ex(Example):
    def dump_files(self):
        pass
    def _read_files(self, dir):
        return {str(p.relative_to(dir)): p.read_bytes().decode("utf-8") for p in [*dir.iterdir(), *dir.rglob("*.py")] if p.is_file()}

def run_inline(files, flags, cwd_files=None):
    cap = _Cap()
    old = os.getcwd()
    tmp = None
    try:
        if cwd_files is not None:
            tmp = tempfile.mkdtemp()
            for n, c in cwd_files.items():
                open(os.path.join(tmp, n), "w", encoding="utf-8", newline="").write(c)
            os.chdir(tmp)
        with contextlib.redirect_stdout(io.StringIO()), contextlib.redirect_stderr(io.StringIO()):
            res = _Ex(dict(files)).run_inline(["--inline-snapshot=" + flags], raises=cap)
    finally:
        os.chdir(old)
        if tmp:
            shutil.rmtree(tmp, ignore_errors=True)
    return dict(res.files), cap.text

def rerun_identity(src):
    """exec the rewritten module with snapshot := identity and run every test_* function"""
    real = inline_snapshot.snapshot
    inline_snapshot.snapshot = lambda x=...: x
    try:
        ns = {}
        exec(compile(src.replace("\r\n", "\n"), "<rewritten>", "exec"), ns)
        for k, v in list(ns.items()):
            if (k.startswith("test_") or k == "test") and callable(v):
                v()
    finally:
        inline_snapshot.snapshot = real

SRC = 'from inline_snapshot import snapshot\nfrom collections import namedtuple\n\n\nNT = namedtuple("NT", "a b")\n\n\n# ---- case ----\ndef test_a():\n    v1 = \'ab\'\n    v2 = NT(a=(1, 1), b=None)\n    assert v1 == snapshot()\n    assert v2 == snapshot(NT(  a = 1 , b = None ))\n'
FLAGS = 'create,fix'
after, raised = run_inline({'test_something.py': SRC}, FLAGS, cwd_files={})
new = after['test_something.py']
print(new)
assert raised is None, raised
compile(new, 'test_something.py', 'exec')
rerun_identity(new)  # raises when the rewritten module is not green with snapshot := identity

