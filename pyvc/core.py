"""Path context: path condition, fresh symbols, branching oracle, obligations."""
from __future__ import annotations

import z3

from .types import (BOOL, CHAR, INT, STR, Abs, DictT, ListT, Obj, OptT, RecT, SDict, SetT, SList, SSet, SV,
                    TupleT, Ty, sort_of)


def forall(vs, body, patterns=None):
    """ForAll with patterns when z3 accepts them (no ite / bound-variable-free terms), else without."""
    if patterns:
        ok = True
        for p in patterns:
            txt = p.sexpr()
            if "(ite " in txt or "(if " in txt:
                ok = False
        if ok:
            try:
                return z3.ForAll(vs, body, patterns=patterns)
            except z3.Z3Exception:
                pass
    return z3.ForAll(vs, body)


class Unsupported(Exception):
    """The engine cannot interpret a construct: the function is undecided (never a violation)."""


class PathEnd(Exception):
    """Current path stops here (loop body checked, or path condition infeasible)."""


class ReturnSig(Exception):
    def __init__(self, value):
        self.value = value


class BreakSig(Exception):
    pass


class ContinueSig(Exception):
    pass


class RaiseSig(Exception):
    def __init__(self, cls: str, info=None, implicit=False):
        self.cls = cls
        self.info = info
        self.implicit = implicit


import re as _re

_AXSYM = _re.compile(r"\b(?:cnt_[a-z]+|lcs|gsum_[a-z]+)\b")


class Obligation:
    def __init__(self, func, kind, label, props, assumptions, goal, path, where=""):
        self.func = func
        self.kind = kind
        self.label = label
        self.props = list(props)
        self.assumptions = list(assumptions)
        self.goal = goal
        self.path = path
        self.where = where
        self.status = None  # discharged | refuted | unknown
        self.backend = None
        self.ms = 0.0
        self.model = None
        self.detail = ""

    @property
    def oid(self):
        return f"{self.func}/{self.kind}:{self.label}"

    def smt2(self, axioms=()):
        s = z3.Solver()
        body = " ".join(a.sexpr() for a in self.assumptions) + " " + self.goal.sexpr()
        if getattr(self, "no_axioms", False):
            axioms = ()
        for a in axioms:
            # relevance filter: an axiom about cnt_<letters> is only needed if the VC mentions that function
            syms = set(_AXSYM.findall(a.sexpr()))
            if syms and not all(sym in body for sym in syms):
                continue
            s.add(a)
        for a in self.assumptions:
            s.add(a)
        s.add(z3.Not(self.goal))
        return s.to_smt2()


def has_quantifier(e):
    seen = set()
    stack = [e]
    while stack:
        x = stack.pop()
        if x.get_id() in seen:
            continue
        seen.add(x.get_id())
        if z3.is_quantifier(x):
            return True
        stack.extend(x.children())
    return False


class Ctx:
    """State of one execution path.

    The incremental solver is used only to prune infeasible branches and to simplify index / slice
    expressions.  Quantified assumptions are kept out of it (fewer assumptions = more paths kept, which is
    sound) unless `full_feasibility` is set; every obligation still carries the complete path condition."""

    def __init__(self, decisions, rlimit=400000):
        self.pc: list = []
        self.tags: dict = {}  # index into pc -> clause label that produced the assumption
        self.decisions = list(decisions)
        self.pos = 0
        self.new_pending: list = []
        self.counter = 0
        self.solver = z3.Solver()
        self.solver.set("rlimit", rlimit)
        self.solver.set("timeout", 20000)
        self.dead = False
        self.defs = set()
        self.full_feasibility = True
        self.checks = 0

    def fresh_name(self, hint):
        self.counter += 1
        return f"{hint}!{self.counter}"

    def fresh(self, ty: Ty, hint="v"):
        return z3.Const(self.fresh_name(hint), sort_of(ty))

    def assume(self, f, tag=None):
        if isinstance(f, bool):
            if not f:
                raise PathEnd()
            return
        f = z3.simplify(f)
        if z3.is_true(f):
            return
        if z3.is_false(f):
            raise PathEnd()
        if tag is not None:
            self.tags[len(self.pc)] = tag
        self.pc.append(f)
        if self.full_feasibility or not has_quantifier(f):
            self.solver.add(f)

    def define(self, key, builder):
        """Assume a definitional axiom (of an interpreted helper function) once per path."""
        if key in self.defs:
            return
        self.defs.add(key)
        ax = builder()
        self.pc.append(ax)
        if self.full_feasibility:
            self.solver.add(ax)

    def known(self, f) -> bool:
        """True only if the path condition entails f (within the resource limit)."""
        f = z3.simplify(f)
        if z3.is_true(f):
            return True
        self.solver.push()
        self.solver.add(z3.Not(f))
        r = self.solver.check()
        self.solver.pop()
        return r == z3.unsat

    def feasible(self, f) -> bool:
        self.solver.push()
        self.solver.add(f)
        self.checks += 1
        r = self.solver.check()
        self.solver.pop()
        return r != z3.unsat

    def choose(self) -> bool:
        """Unconditional nondeterministic choice (both sides explored)."""
        if self.pos < len(self.decisions):
            d = self.decisions[self.pos]
        else:
            d = True
            self.new_pending.append(self.decisions[: self.pos] + [False])
            self.decisions.append(d)
        self.pos += 1
        return d

    def branch(self, cond) -> bool:
        if isinstance(cond, bool):
            return cond
        cond = z3.simplify(cond)
        if z3.is_true(cond):
            return True
        if z3.is_false(cond):
            return False
        if self.pos < len(self.decisions):
            d = self.decisions[self.pos]
        else:
            t = self.feasible(cond)
            f = self.feasible(z3.Not(cond))
            if t and f:
                d = True
                self.new_pending.append(self.decisions[: self.pos] + [False])
            elif t:
                d = True
            elif f:
                d = False
            else:
                raise PathEnd()
            self.decisions.append(d)
        self.pos += 1
        self.pc.append(cond if d else z3.Not(cond))
        if self.full_feasibility or not has_quantifier(self.pc[-1]):
            self.solver.add(self.pc[-1])
        return d


# ------------------------------------------------------------------------------------------------
# packing interpreter values into z3 terms and back


def is_sym(v):
    return isinstance(v, (SV, SList, SDict, SSet))


def zint(v):
    if isinstance(v, bool):
        return z3.IntVal(1 if v else 0)
    if isinstance(v, int):
        return z3.IntVal(v)
    if isinstance(v, SV) and v.ty in (INT, CHAR):
        return v.t
    if isinstance(v, SV) and v.ty == BOOL:
        return z3.If(v.t, 1, 0)
    if z3.is_expr(v):
        return v
    raise Unsupported(f"not an int: {v!r}")


def pack(ctx: Ctx, v, ty: Ty):
    """interpreter value -> z3 term of sort_of(ty)"""
    if ty == INT:
        return zint(v)
    if ty == CHAR:
        if isinstance(v, str) and len(v) == 1:
            return z3.IntVal(ord(v))
        if isinstance(v, SV) and v.ty in (CHAR, INT):
            return v.t
        raise Unsupported(f"not a char: {v!r}")
    if ty == BOOL:
        if isinstance(v, bool):
            return z3.BoolVal(v)
        if isinstance(v, SV) and v.ty == BOOL:
            return v.t
        raise Unsupported(f"not a bool: {v!r}")
    if ty == STR:
        if isinstance(v, str):
            return z3.StringVal(v)
        if isinstance(v, SV) and v.ty == STR:
            return v.t
        raise Unsupported(f"not a str: {v!r}")
    if isinstance(ty, Abs):
        if isinstance(v, SV) and v.ty == ty:
            return v.t
        if ty.key == "Any":
            # the universal element sort of containers whose element type is not declared: injection of any typed value
            t = ty_of(v)
            if t is not None and not isinstance(v, (SList, SDict, SSet)):
                f = z3.Function("any_of_" + str(sort_of(t)), sort_of(t), sort_of(ty))
                return f(pack(ctx, v, t))
            return z3.Const(ctx.fresh_name("any"), sort_of(ty))
        raise Unsupported(f"cannot pack {v!r} as {ty}")
    if isinstance(ty, TupleT):
        if isinstance(v, tuple) and len(v) == len(ty.elems):
            s = sort_of(ty)
            return s.constructor(0)(*[pack(ctx, x, t) for x, t in zip(v, ty.elems)])
        raise Unsupported(f"cannot pack {v!r} as {ty}")
    if isinstance(ty, OptT):
        s = sort_of(ty)
        if v is None:
            return s.constructor(0)()
        if isinstance(v, SV) and v.ty == ty:
            return v.t
        return s.constructor(1)(pack(ctx, v, ty.elem))
    if isinstance(ty, ListT):
        s = sort_of(ty)
        if isinstance(v, str) and ty.elem == CHAR:
            v = text_of(ctx, v)
        if isinstance(v, (list, tuple)):
            v = slist_of(ctx, list(v), ty.elem)
        if isinstance(v, SList):
            if v.ety != ty.elem:
                raise Unsupported(f"list element type {v.ety} != {ty.elem}")
            return s.constructor(0)(v.arr, v.nz())
        raise Unsupported(f"cannot pack {v!r} as {ty}")
    if isinstance(ty, RecT):
        s = sort_of(ty)
        if isinstance(v, Obj) and v.rec == ty:
            return s.constructor(0)(*[pack(ctx, v.fields[f], t) for f, t in ty.fields.items()])
        raise Unsupported(f"cannot pack {v!r} as {ty}")
    if isinstance(ty, DictT):
        s = sort_of(ty)
        if isinstance(v, SDict):
            return s.constructor(0)(v.dom, v.map)
        raise Unsupported(f"cannot pack {v!r} as {ty}")
    if isinstance(ty, SetT):
        if isinstance(v, SSet):
            return v.pred
        if isinstance(v, (set, frozenset)):
            x = z3.Const(ctx.fresh_name("sx"), sort_of(ty.elem))
            return z3.Lambda([x], z3.Or([x == pack(ctx, e, ty.elem) for e in v]) if v else z3.BoolVal(False))
    raise Unsupported(f"pack {ty}")


def unpack(ctx: Ctx, t, ty: Ty):
    """z3 term -> interpreter value (tuples / records / lists are opened eagerly)."""
    if ty in (INT, BOOL, CHAR, STR) or isinstance(ty, (Abs, OptT)):
        t = z3.simplify(t)
        if ty == INT and z3.is_int_value(t):
            return t.as_long()
        if ty == BOOL and (z3.is_true(t) or z3.is_false(t)):
            return z3.is_true(t)
        return SV(t, ty)
    if isinstance(ty, TupleT):
        s = sort_of(ty)
        return tuple(unpack(ctx, s.accessor(0, i)(t), e) for i, e in enumerate(ty.elems))
    if isinstance(ty, RecT):
        s = sort_of(ty)
        return Obj(ty.name, {f: unpack(ctx, s.accessor(0, i)(t), ft) for i, (f, ft) in enumerate(ty.fields.items())}, rec=ty)
    if isinstance(ty, ListT):
        s = sort_of(ty)
        n = z3.simplify(s.accessor(0, 1)(t))
        arr = z3.simplify(s.accessor(0, 0)(t))
        if z3.is_int_value(n):
            n = n.as_long()
        else:
            ctx.assume(n >= 0)
        return SList(arr, n, ty.elem, is_str=ty.is_str, immutable=True)
    if isinstance(ty, DictT):
        s = sort_of(ty)
        return SDict(s.accessor(0, 0)(t), s.accessor(0, 1)(t), ty.k, ty.v)
    if isinstance(ty, SetT):
        return SSet(t, ty.elem)
    raise Unsupported(f"unpack {ty}")


def fresh_value(ctx: Ctx, ty: Ty, hint="v"):
    return unpack(ctx, ctx.fresh(ty, hint), ty)


def ty_of(v) -> Ty | None:
    if isinstance(v, bool):
        return BOOL
    if isinstance(v, int):
        return INT
    if isinstance(v, str):
        return CHAR if len(v) == 1 else ListT(CHAR, True)
    if isinstance(v, (SV, SList, SDict, SSet)):
        return v.ty
    if isinstance(v, tuple):
        ts = [ty_of(x) for x in v]
        if all(t is not None for t in ts):
            return TupleT(ts)
        return None
    if isinstance(v, Obj) and v.rec is not None:
        return v.rec
    return None


# ------------------------------------------------------------------------------------------------
# list construction helpers


def slist_of(ctx: Ctx, items: list, ety: Ty, is_str=False) -> SList:
    arr = z3.Const("empty_" + str(sort_of(ety)), z3.ArraySort(z3.IntSort(), sort_of(ety)))
    for i, x in enumerate(items):
        arr = z3.Store(arr, i, pack(ctx, x, ety))
    return SList(arr, len(items), ety, is_str=is_str)


def _default_of(ctx, ety):
    return z3.Const("dflt_" + str(sort_of(ety)), sort_of(ety))


def text_of(ctx: Ctx, s: str) -> SList:
    return slist_of(ctx, list(s), CHAR, is_str=True)


def as_slist(ctx: Ctx, v) -> SList:
    if isinstance(v, SList):
        return v
    if isinstance(v, str):
        return text_of(ctx, v)
    if isinstance(v, SV) and v.ty == CHAR:
        return slist_of(ctx, [v], CHAR, is_str=True)
    if isinstance(v, (list, tuple)):
        if not v:
            raise Unsupported("empty concrete list needs an element type")
        t = ty_of(v[0])
        if t is None:
            raise Unsupported(f"cannot type list element {v[0]!r}")
        return slist_of(ctx, list(v), t)
    raise Unsupported(f"not a list: {v!r}")


def list_get(ctx: Ctx, l: SList, i):
    return unpack(ctx, z3.Select(l.arr, zint(i)), l.ety)


def list_concat(ctx: Ctx, a: SList, b: SList) -> SList:
    if a.ety != b.ety:
        raise Unsupported(f"concat of {a.ety} and {b.ety}")
    if isinstance(b.n, int) and b.n <= 8:
        arr = a.arr
        for i in range(b.n):
            arr = z3.Store(arr, a.nz() + i if not isinstance(a.n, int) else a.n + i, z3.Select(b.arr, i))
        n = a.n + b.n if isinstance(a.n, int) else z3.simplify(a.n + b.n)
        return SList(z3.simplify(arr), n, a.ety, a.is_str or b.is_str)
    if isinstance(a.n, int) and a.n == 0:
        return SList(b.arr, b.n, b.ety, a.is_str or b.is_str)
    an, bn = a.nz(), b.nz()
    arr = cat_fn(ctx, a.ety)(a.arr, an, b.arr)
    r = SList(arr, z3.simplify(an + bn), a.ety, a.is_str or b.is_str)
    return r


def _arr_sort(ety):
    return z3.ArraySort(z3.IntSort(), sort_of(ety))


def cat_fn(ctx, ety):
    """cat(a, an, b)[i] = a[i] if i < an else b[i - an]"""
    A = _arr_sort(ety)
    name = "cat_" + str(sort_of(ety))
    f = z3.Function(name, A, z3.IntSort(), A, A)

    def ax():
        a, b = z3.Consts(f"{name}!a {name}!b", A)
        n, i = z3.Ints(f"{name}!n {name}!i")
        return z3.ForAll([a, n, b, i], z3.Select(f(a, n, b), i) == z3.If(i < n, z3.Select(a, i), z3.Select(b, i - n)),
                         patterns=[z3.Select(f(a, n, b), i)])

    ctx.define(name, ax)
    return f


def rep_fn(ctx, ety):
    """rep(e)[i] = e"""
    A = _arr_sort(ety)
    name = "rep_" + str(sort_of(ety))
    f = z3.Function(name, sort_of(ety), A)

    def ax():
        e = z3.Const(f"{name}!e", sort_of(ety))
        i = z3.Int(f"{name}!i")
        return z3.ForAll([e, i], z3.Select(f(e), i) == e, patterns=[z3.Select(f(e), i)])

    ctx.define(name, ax)
    return f


def rev_fn(ctx, ety):
    """rev(a, n)[i] = a[n - 1 - i]"""
    A = _arr_sort(ety)
    name = "rev_" + str(sort_of(ety))
    f = z3.Function(name, A, z3.IntSort(), A)

    def ax():
        a = z3.Const(f"{name}!a", A)
        n, i = z3.Ints(f"{name}!n {name}!i")
        return z3.ForAll([a, n, i], z3.Select(f(a, n), i) == z3.Select(a, n - 1 - i), patterns=[z3.Select(f(a, n), i)])

    ctx.define(name, ax)
    return f


def slc_fn(ctx, ety):
    """slc(a, lo)[i] = a[lo + i]"""
    A = _arr_sort(ety)
    name = "slc_" + str(sort_of(ety))
    f = z3.Function(name, A, z3.IntSort(), A)

    def ax():
        a = z3.Const(f"{name}!a", A)
        n, i = z3.Ints(f"{name}!n {name}!i")
        return z3.ForAll([a, n, i], z3.Select(f(a, n), i) == z3.Select(a, n + i), patterns=[z3.Select(f(a, n), i)])

    ctx.define(name, ax)
    return f


def list_replicate(ctx: Ctx, elem, n, ety: Ty, is_str=False) -> SList:
    e = pack(ctx, elem, ety)
    if isinstance(n, int):
        return slist_of(ctx, [elem] * max(n, 0), ety, is_str)
    nz = zint(n)
    ln = z3.If(nz > 0, nz, 0)
    return SList(rep_fn(ctx, ety)(e), z3.simplify(ln), ety, is_str)


def list_slice(ctx: Ctx, l: SList, lo, hi) -> SList:
    """l[lo:hi] with Python clamping for non-negative bounds (negative bounds are normalised first)."""
    n = l.nz()

    def norm(x, default):
        if x is None:
            return default
        x = zint(x)
        if ctx.known(z3.And(0 <= x, x <= n)):
            return x
        x = z3.If(x < 0, z3.If(x + n < 0, 0, x + n), z3.If(x > n, n, x))
        return x

    lo_z = z3.simplify(norm(lo, z3.IntVal(0)))
    hi_z = z3.simplify(norm(hi, n))
    ln = z3.simplify(hi_z - lo_z) if ctx.known(hi_z >= lo_z) else z3.simplify(z3.If(hi_z > lo_z, hi_z - lo_z, 0))
    if z3.is_int_value(lo_z) and lo_z.as_long() == 0:
        return SList(l.arr, ln.as_long() if z3.is_int_value(ln) else ln, l.ety, l.is_str)
    arr = slc_fn(ctx, l.ety)(l.arr, lo_z)
    r = SList(arr, ln.as_long() if z3.is_int_value(ln) else ln, l.ety, l.is_str)
    return r


def list_reversed(ctx: Ctx, l: SList) -> SList:
    if isinstance(l.n, int):
        return slist_of(ctx, [list_get(ctx, l, l.n - 1 - i) for i in range(l.n)], l.ety, l.is_str)
    n = l.nz()
    arr = rev_fn(ctx, l.ety)(l.arr, n)
    return SList(arr, l.n, l.ety, l.is_str)


def list_append(ctx: Ctx, l: SList, v):
    if l.immutable:
        raise Unsupported("append to an immutable (packed) list")
    l.arr = z3.Store(l.arr, l.nz(), pack(ctx, v, l.ety))
    l.n = l.n + 1 if isinstance(l.n, int) else z3.simplify(l.n + 1)
