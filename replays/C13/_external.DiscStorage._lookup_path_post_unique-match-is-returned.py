"""Replay file written by /verif/check.py
{
 "property": "C13",
 "failed_obligation": "_external.DiscStorage._lookup_path/post:unique-match-is-returned",
 "path": 3,
 "function": "inline_snapshot._external.DiscStorage._lookup_path",
 "verdict": "refuted",
 "backend": "z3-5.1",
 "solver_model": "eq_opq!17 = False\nlen_opq!14 = 1\nlen_opq!15 = 0\nmatching_files!13 = mk_List_Rec_PathRec(K(Int, mk_Rec_PathRec(\"\", \"\")), 2)\ntruth_opq15!16 = True",
 "where": ""
}
"""

print('no native failing input was found for this obligation; see the header for the solver output')
