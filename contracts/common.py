"""Shapes, globals and default callee policies shared by the sidecars (Layer B / C / D)."""
from pyvc import defaults as R
from pyvc.contract import Shape

R.SHAPES.update({
    "Flags": Shape("inline_snapshot._flags.Flags", {"create": "Bool", "fix": "Bool", "trim": "Bool", "update": "Bool"}),
    "State": Shape("inline_snapshot._global_state.State", {
        "missing_values": "Int", "incorrect_values": "Int", "update_flags": "@Flags", "active": "Bool",
        "snapshots": "Opaque", "files_with_snapshots": "Opaque", "storage": "Opaque", "flags": "Opaque"}),
    "SourceFileW": Shape("inline_snapshot._source_file.SourceFile", {"_source": "Opaque"}),
    "Context": Shape("inline_snapshot._adapter.adapter.AdapterContext", {"file": "@SourceFileW", "frame": "Opaque"}),
    "Value": Shape("inline_snapshot._snapshot.generic_value.GenericValue", {
        "_old_value": "Val", "_new_value": "Val", "_ast_node": "Node", "_context": "@Context"}),
})
R.DEFAULT_POLICIES["globals"].update({"state": "@State"})
R.DEFAULT_POLICIES.update({
    "inline_snapshot._global_state.state": "global:state",
})
