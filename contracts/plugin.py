"""Layer D: event-order contracts on the drivers (pytest_plugin.pytest_sessionfinish, ...).

The environment is havoc (console, rich, pathlib, capture manager ...); every uninterpreted call may raise.
Tracked calls update ghost state and carry the obligations O1..O6 of DESIGN section 5:

  approved(f) := f in state().flags  or  ("review" in state().flags and Confirm.ask for f answered True)

  O1  fix_all() only on a recorder whose applied changes are all approved           [C04]
  O2  no fix_all / persist / remove when short-report is given or the session is inactive   [C04]
  O3  storage.remove() only under approved('trim')                                   [C04, C13]
  O4  storage.persist() precedes fix_all()                                           [C13, C15]
  O5  leave_snapshot_context() exactly once on every path; capture resumed after suspend   [C15]
  O6  apply_all() never edits one container twice in one recorder (fresh)           [C18, C09, C04]
"""
import z3

from pyvc.contract import Loop, Shape, contract
from pyvc.core import PathEnd, Unsupported, fresh_value, list_concat, pack, slist_of
from pyvc.defaults import DEFAULT_POLICIES, SHAPES
from pyvc.interp import PyList
from pyvc.types import BOOL, INT, STR, Abs, Obj, Opaque, SList, SSet, SV, parse_ty, sort_of

PP = "inline_snapshot.pytest_plugin"
CATS = ["create", "fix", "trim", "update"]

SHAPES.update({
    "SnapTable": Shape("SnapTable", {"values": lambda I: p_snap_values(I, [], {}, None)}),
    "DStorage": Shape("inline_snapshot._external.DiscStorage", {"directory": "Opaque"}),
    "DState": Shape("inline_snapshot._global_state.State", {
        "missing_values": "Int", "incorrect_values": "Int", "update_flags": "@Flags", "active": "Bool",
        "snapshots": "@SnapTable", "files_with_snapshots": "Opaque", "storage": "@DStorage", "flags": "Set[Str]"}),
})

CHG_LIST = parse_ty("List[Chg]")


def _bump(I):
    I.epoch = getattr(I, "epoch", 0) + 1


def _g(I, name):
    return I.ghost[name]


def _inc(I, name):
    v = I.ghost[name]
    I.ghost[name] = v + 1 if isinstance(v, int) else SV(z3.simplify(v.t + 1), INT)


def _z(v):
    return z3.IntVal(v) if isinstance(v, int) else v.t


def flags_pred(I):
    st = I.V.global_value(I, "state")
    return st.fields["flags"].pred


def approved_term(I, flag_t):
    """approved(f) as a z3 Bool over a String term."""
    alt = I.V.c.ghost.get("approved_term")
    if alt is not None:
        return alt(I, flag_t)
    fp = flags_pred(I)
    asked = I.ghost["asked"].pred  # Array String Bool: answers given so far
    return z3.Or(z3.Select(fp, flag_t), z3.And(z3.Select(fp, z3.StringVal("review")), z3.Select(asked, flag_t)))


def s_approved(I, flag):
    return SV(approved_term(I, pack(I.ctx, flag, STR)), BOOL)


def gate_open(I):
    """not short-report, active: the only situation in which anything may be written (O2)."""
    if I.V.c.ghost.get("no_gate"):
        return z3.BoolVal(True)
    st = I.V.global_value(I, "state")
    fp = st.fields["flags"].pred
    act = st.fields["active"]
    act_t = z3.BoolVal(act) if isinstance(act, bool) else act.t
    x, c, i = (I.V.global_value(I, n) for n in ("xdist", "ci", "impl_ok"))
    tt = lambda b: z3.BoolVal(b) if isinstance(b, bool) else b.t
    return z3.And(z3.Not(z3.Select(fp, z3.StringVal("short-report"))), act_t, z3.Not(tt(x)), z3.Not(tt(c)), tt(i))


# ---------------------------------------------------------------------------------------------- tracked calls

def p_enter_ctx(I, args, kwargs, node):
    _bump(I)
    _inc(I, "n_enter")


def p_leave_ctx(I, args, kwargs, node):
    _bump(I)
    _inc(I, "n_leave")


def p_new_recorder(I, args, kwargs, node):
    return Obj("inline_snapshot._rewrite_code.ChangeRecorder", {"applied": slist_of(I.ctx, [], parse_ty("Chg")), "n_apply": 0, "written": False})


def _as_chg_list(I, v):
    if isinstance(v, SList):
        return v
    if isinstance(v, Opaque):
        return fresh_value(I.ctx, CHG_LIST, "unknown_changes")  # a list the engine knows nothing about
    if isinstance(v, PyList) and not v.items:
        return slist_of(I.ctx, [], parse_ty("Chg"))
    raise Unsupported(f"apply_all of {v!r}")


def p_apply_all(I, args, kwargs, node):
    """apply_all(changes, recorder): O6 -- every container of `changes` must be untouched in this recorder."""
    _bump(I)
    changes, cr = _as_chg_list(I, args[0]), args[1]
    applied = cr.fields["applied"]
    i, j = z3.Int(I.ctx.fresh_name("ai")), z3.Int(I.ctx.fresh_name("aj"))
    parent = z3.Function("edit_container", sort_of(parse_ty("Chg")), sort_of(Abs("Node")))
    fresh = z3.ForAll([i, j], z3.Implies(z3.And(0 <= i, i < applied.nz(), 0 <= j, j < changes.nz()),
                                          parent(z3.Select(applied.arr, i)) != parent(z3.Select(changes.arr, j))))
    I.oblige("call-pre", f"apply_all.fresh-container(O6)@{getattr(node, 'lineno', '?')} [C18,C09,C04]", fresh)
    cr.fields["applied"] = list_concat(I.ctx, applied, changes)
    n = cr.fields["n_apply"]
    cr.fields["n_apply"] = n + 1
    I.V.may_raise(I, "apply_all")
    return None


def p_virtual_write(I, args, kwargs, node):
    _bump(I)
    I.V.may_raise(I, "virtual_write")
    return None


def p_files(I, args, kwargs, node):
    return fresh_value(I.ctx, parse_ty("List[SrcFile]"), "files")


def p_fix_all(I, args, kwargs, node):
    """recorder.fix_all(): the moment test files are written (O1, O2)."""
    _bump(I)
    cr = args[0]
    applied = cr.fields["applied"]
    i = z3.Int(I.ctx.fresh_name("fi"))
    flag = sort_of(parse_ty("Chg")).accessor(0, 1)
    o1 = z3.ForAll([i], z3.Implies(z3.And(0 <= i, i < applied.nz()), approved_term(I, flag(z3.Select(applied.arr, i)))))
    I.oblige("call-pre", f"fix_all.only-approved-changes(O1)@{getattr(node, 'lineno', '?')} [C04]", o1)
    I.oblige("call-pre", f"fix_all.session-may-write(O2)@{getattr(node, 'lineno', '?')} [C04]", gate_open(I))
    I.oblige("call-pre", f"fix_all.before-the-unused-externals-scan@{getattr(node, "lineno", "?")} [C08,C13,C18]", z3.BoolVal(not I.ghost.get("unused_scanned", False)) if isinstance(I.ghost.get("unused_scanned", False), bool) else z3.Not(I.ghost["unused_scanned"].t))
    _inc(I, "n_fix_all")
    I.V.may_raise(I, "fix_all")
    return None


def p_persist(I, args, kwargs, node):
    _bump(I)
    I.oblige("call-pre", f"persist.before-fix_all(O4)@{getattr(node, 'lineno', '?')} [C13,C15]", _z(I.ghost["n_fix_all"]) == 0)
    I.oblige("call-pre", f"persist.session-may-write(O2)@{getattr(node, 'lineno', '?')} [C04,C13]", gate_open(I))
    I.oblige("call-pre", f"persist.only-with-an-approved-change [C04,C13]", z3.Or([approved_term(I, z3.StringVal(c)) for c in CATS]))
    _inc(I, "n_persist")
    I.V.may_raise(I, "persist")
    return None


def p_remove(I, args, kwargs, node):
    _bump(I)
    I.oblige("call-pre", f"remove.only-under-approved-trim(O3)@{getattr(node, 'lineno', '?')} [C04,C13]", approved_term(I, z3.StringVal("trim")))
    I.oblige("call-pre", f"remove.session-may-write(O2)@{getattr(node, 'lineno', '?')} [C04,C13]", gate_open(I))
    _inc(I, "n_remove")
    I.V.may_raise(I, "remove")
    return None


def p_used_hasrepr(I, args, kwargs, node):
    r = SV(z3.Bool(I.ctx.fresh_name("hasrepr_used")), BOOL)
    I.ghost["hasrepr_used"] = r
    return r


def p_ensure_import(I, args, kwargs, node):
    """ensure_import(filename, {"inline_snapshot": names}, cr): O7 -- a name is imported into a file only if the new code
    of *that* file uses it (C03: the only edit allowed elsewhere is adding the import the generated code needs)."""
    _bump(I)
    I.oblige("call-pre", f"ensure_import.before-fix_all@{getattr(node, 'lineno', '?')} [C03,C15]", _z(I.ghost["n_fix_all"]) == 0)
    imports = args[1]
    from pyvc.interp import PyDict as _PD

    used = I.ghost.get("used_last")
    used_nonempty = (used.nz() > 0) if used is not None else z3.BoolVal(False)
    hr = I.ghost.get("hasrepr_used")
    hr_t = hr.t if isinstance(hr, SV) else z3.BoolVal(bool(hr))
    goal = None
    if isinstance(imports, _PD) and list(imports.d) == ["inline_snapshot"]:
        names = imports.d["inline_snapshot"]
        if isinstance(names, PyList) and all(isinstance(x, str) for x in names.items):
            parts = []
            for x in names.items:
                parts.append(used_nonempty if x == "external" else hr_t if x == "HasRepr" else z3.BoolVal(False))
            goal = z3.And(parts) if parts else z3.BoolVal(True)
        elif isinstance(names, SList):
            i = z3.Int(I.ctx.fresh_name("ni"))
            e = z3.Select(names.arr, i)
            ext = pack(I.ctx, "external" if names.ety == STR else SV(z3.StringVal("external"), STR), names.ety)
            hrn = pack(I.ctx, "HasRepr" if names.ety == STR else SV(z3.StringVal("HasRepr"), STR), names.ety)
            goal = z3.ForAll([i], z3.Implies(z3.And(0 <= i, i < names.nz()), z3.Or(z3.And(e == ext, used_nonempty), z3.And(e == hrn, hr_t))))
    if isinstance(imports, _PD) and list(imports.d) == ["inline_snapshot"] and isinstance(imports.d["inline_snapshot"], PyList):
        nm = imports.d["inline_snapshot"].items
        I.ghost["ensured_ext"] = "external" in nm
        I.ghost["ensured_hr"] = "HasRepr" in nm
    if goal is None:
        goal = z3.Bool(I.ctx.fresh_name("imports_match_this_file"))  # shape not understood: cannot be shown
    I.oblige("call-pre", f"ensure_import.only-names-this-file-needs(O7)@{getattr(node, 'lineno', '?')} [C03]", goal)
    I.V.may_raise(I, "ensure_import")
    return None


def p_confirm_ask(I, args, kwargs, node):
    """rich.prompt.Confirm.ask: the user's answer (assumed: returns what the user typed)."""
    _bump(I)
    flag = None
    for fr in reversed(I.frames):
        b = getattr(fr, "bound", None)
        if b and "flag" in b:
            flag = b["flag"]
            break
    r = z3.Bool(I.ctx.fresh_name("answer"))
    if flag is None:
        raise Unsupported("Confirm.ask outside apply_changes(flag)")
    a = I.ghost["asked"]
    I.ghost["asked"] = SSet(z3.Store(a.pred, pack(I.ctx, flag, STR), r), STR)
    I.V.may_raise(I, "Confirm.ask")
    return SV(r, BOOL)


def p_unused_externals(I, args, kwargs, node):
    """unused_externals() reads the test files from disk: it has to run after they were rewritten, otherwise an external
    that was persisted for a reference written in this very session looks unused (C08/C13)"""
    _bump(I)
    I.ghost["unused_scanned"] = True
    return fresh_value(I.ctx, parse_ty("List[Str]"), "unused")


def p_used_externals(I, args, kwargs, node):
    r = fresh_value(I.ctx, parse_ty("List[Str]"), "used")
    I.ghost["used_last"] = r
    return r


def p_snap_values(I, args, kwargs, node):
    return fresh_value(I.ctx, parse_ty("List[Snap]"), "snapshots")


def p_snap_changes(I, args, kwargs, node):
    """snapshot._changes() for a table entry: contract of SnapshotReference._changes -- every change carries a category."""
    sv = args[0]
    f = z3.Function("changes_of", sort_of(Abs("Snap")), sort_of(CHG_LIST))
    from pyvc.core import unpack

    tr = unpack(I.ctx, f(sv.t), CHG_LIST)
    i = z3.Int(I.ctx.fresh_name("ci"))
    flag = sort_of(parse_ty("Chg")).accessor(0, 1)
    I.ctx.assume(z3.ForAll([i], z3.Implies(z3.And(0 <= i, i < tr.nz()), z3.Or([flag(z3.Select(tr.arr, i)) == z3.StringVal(c) for c in CATS]))), tag="changes-have-categories")
    return Obj("generator", {"trace": tr, "value": None})


def havoc_hook(I, what, args, kwargs, node):
    from pyvc.interp import _MISSING

    if what.endswith(".suspend_global_capture"):
        _bump(I)
        I.V.may_raise(I, what)  # a failing suspend did not suspend
        _inc(I, "n_suspend")
    elif what.endswith(".resume_global_capture"):
        _bump(I)
        _inc(I, "n_resume")
    return _MISSING


from pyvc.specs import SPEC_NS

SPEC_NS.update({"approved": s_approved})

DEFAULT_POLICIES["globals"].update({"xdist": "Bool", "ci": "Bool", "impl_ok": "Bool"})

D_POL = {
    "inline_snapshot._global_state.enter_snapshot_context": p_enter_ctx,
    "inline_snapshot._global_state.leave_snapshot_context": p_leave_ctx,
    "inline_snapshot.pytest_plugin.xdist_running": "global:xdist",
    "inline_snapshot.pytest_plugin.is_ci_run": "global:ci",
    "inline_snapshot.pytest_plugin.is_implementation_supported": "global:impl_ok",
    "ChangeRecorder": p_new_recorder,
    "inline_snapshot._change.apply_all": p_apply_all,
    "ChangeRecorder.virtual_write": p_virtual_write,
    "ChangeRecorder.files": p_files,
    "ChangeRecorder.get_source": "havoc",
    "ChangeRecorder.fix_all": p_fix_all,
    "DiscStorage.persist": p_persist,
    "DiscStorage.remove": p_remove,
    "inline_snapshot._find_external.ensure_import": p_ensure_import,
    "inline_snapshot._find_external.unused_externals": p_unused_externals,
    "inline_snapshot._inline_snapshot.used_externals": p_used_externals,
    "inline_snapshot._code_repr.used_hasrepr": p_used_hasrepr,
    "inline_snapshot._problems.report_problems": "havoc",
    "inline_snapshot.pytest_plugin.link": "havoc",
    "inline_snapshot.pytest_plugin.category_link": "havoc",
    "inline_snapshot.pytest_plugin.call_once": "havoc",
    "executing.is_pytest_compatible": "havoc",
    "report": "havoc",  # inner closure of the short-report branch: prints only (no tracked call inside; checked by tracked_calls scan)
    "rich.prompt.Confirm.ask": p_confirm_ask,
    "Confirm.ask": p_confirm_ask,
}

GHOST0 = {"unused_scanned": "=False", "used_last": "=None", "hasrepr_used": "=False", "ensured_ext": "=False", "ensured_hr": "=False", "n_enter": "=0", "n_leave": "=0", "n_fix_all": "=0", "n_persist": "=0", "n_remove": "=0", "n_suspend": "=0", "n_resume": "=0"}

EXIT_CLAUSES = {
    # C15: "state always popped" -- on every path, normal or exceptional
    "leave-context-exactly-once(O5) [C15,C04]": "n_leave == 1",
    "capture-resumed-after-suspend(O5) [C15]": "n_suspend == n_resume",
}

contract(
    PP + ".pytest_sessionfinish",
    params={"session": "Opaque", "exitstatus": "Opaque"},
    globals_={"state": "@DState"},
    callees=D_POL,
    uses=[],
    attrs={"Snap._changes": p_snap_changes, "SrcFile.new_code": lambda I, a, k, n: Opaque("new_code"), "SrcFile.filename": "Opaque", "SrcFile.diff": lambda I, a, k, n: Opaque("diff")},
    ensures=dict(EXIT_CLAUSES, **{
        # C04: sessions that approve nothing write nothing
        "nothing-written-without-approval [C04]": "implies(not approved('create') and not approved('fix') and not approved('trim') and not approved('update'),"
                                                  " n_fix_all == 0 and n_persist == 0 and n_remove == 0)",
        "at-most-one-write-pass [C04,C15]": "n_fix_all <= 1",
    }),
    raises={"Exception": dict(EXIT_CLAUSES)},
    loops={
        0: Loop(index="s", ghost_modifies=[], inv={
            "cats-" + c: f"all(changes['{c}'][j].flag == '{c}' for j in range(0, len(changes['{c}'])))" for c in CATS
        }),
        1: Loop(index="t", ghost_modifies=[], inv={
            "cats-" + c: f"all(changes['{c}'][j].flag == '{c}' for j in range(0, len(changes['{c}'])))" for c in CATS
        }),
        3: Loop(index="c", elem_ty="Str", ghost_modifies=["asked"], inv={
            "used-approved": "all(approved(used_changes[j].flag) for j in range(0, len(used_changes)))",
            "used-from-earlier-categories": "all(any(_iter3[i] == used_changes[j].flag for i in range(0, c)) for j in range(0, len(used_changes)))",
            "approved-categories-are-approved": "all_obs(approved_categories, lambda x: approved(x) and any(_iter3[i] == x for i in range(0, c)), 'Str')",
        }),
        4: Loop(index="bf", ghost_modifies=[], inv={"trivial": "True"}),
        5: Loop(index="pf", ghost_modifies=[], inv={"trivial": "True"}),
        6: Loop(index="f", ghost_modifies=["n_persist"], inv={"trivial": "True"},
                iter_init={"ensured_ext": False, "ensured_hr": False},
                # C03/C09/C01: whatever category introduced the name, the rewritten file imports what its new code uses
                iter_post={"imports-what-the-new-code-needs(O7) [C03,C09,C01]": "implies(len(used_last) > 0, ensured_ext) and implies(hasrepr_used, ensured_hr)"}),
        7: Loop(index="e", ghost_modifies=["n_persist"], inv={"trivial": "True"}),
        8: Loop(index="u", ghost_modifies=["n_remove"], inv={"removal-only-under-approved-trim": "implies(not approved('trim'), n_remove == 0)"}),
    },
    ghost={
        "vars": dict(GHOST0, asked="=emptyset:Str"),
        "locals": {"changes[]": "List[Chg]", "used_changes": "List[Chg]", "approved_categories": "Set[Str]"},
        "untracked": ["all_categories", "snapshot_changes", "name", "diff", "num", "con"],
        "tracked_calls": ["apply_all", "fix_all", "persist", "remove", "ensure_import", "leave_snapshot_context", "virtual_write", "ask"],
        "may_raise": True,
        "light_feasibility": True,
        "havoc_unknown_externals": True,
        "auto_cut": True,
        "tracked_ghost": {"persist": ["n_persist"], "remove": ["n_remove"], "fix_all": ["n_fix_all"], "leave_snapshot_context": ["n_leave"],
                          "suspend_global_capture": ["n_suspend"], "resume_global_capture": ["n_resume"], "ask": ["asked"]},
        "havoc_hook": havoc_hook,
        "props": ["C13", "C09", "C03", "C19", "C08", "C01"], "hook_props": ["C19"],  # carried by the obligations of the tracked calls (O3, O4, O6, ensure_import order)
    },
    safety_props=["C18", "C15"],
    assumes=["A-frame", "X13", "PS5"],
    max_paths=3000,
)
