"""Replay file written by /verif/check.py
{
 "property": "C19",
 "failed_obligation": "_rewrite_code.SourceFile.diff/post:compares-the-old-and-the-new-text-line-by-line",
 "path": 1,
 "function": "inline_snapshot._rewrite_code.SourceFile.diff",
 "verdict": "refuted",
 "backend": "z3-5.1",
 "solver_model": "array-ext = [else -> 2]\nlines = [Txt!val!1 -> mk_List_Line(K(Int, Line!val!1), 7719),\n else -> mk_List_Line(K(Int, Line!val!0), 0)]\nnew_text!2 = Txt!val!1\nold_text!1 = Txt!val!0",
 "where": ""
}
"""

print('no native failing input was found for this obligation; see the header for the solver output')
