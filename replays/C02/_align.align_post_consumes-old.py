"""Replay file written by /verif/check.py
{
 "property": "C02",
 "failed_obligation": "_align.align/post:consumes-old",
 "path": 3,
 "function": "inline_snapshot._align.align",
 "verdict": "unknown+native-witness",
 "backend": "z3-5.1,cvc5-1.0.3,z3-4.8.12",
 "solver_model": null,
 "where": ""
}
"""

from inline_snapshot import _align
import sys
sys.path.insert(0, "/verif")
from bounded.b_align import check_align, check_script, check_add_x
args = (['a'], ['a', 'a'])
which = 'align'
r = getattr(_align, which)(*args)
msg = check_align(*args, r) if which == "align" else check_script(*args, r, True) if which == "nw_align" else check_add_x(*args, r)
print(which, args, "->", r, "::", msg)
assert msg is None, msg

